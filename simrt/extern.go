package simrt

import (
	"bytes"
	"runtime"
	"strconv"
)

// reapExterns marks as finished the goroutines that were born in
// un-instrumented code (registered on first contact, so their exit is not
// observed by a wrapper) and no longer exist. It reports whether any was
// reaped. It is called only when nothing is runnable, with all goroutines of
// the bubble quiescent.
func (s *Sim) reapExterns() bool {
	s.mu.Lock()
	var cand []*G
	for _, g := range s.all {
		if g.extern && g.state != stDone && g.state != stParked {
			cand = append(cand, g)
		}
	}
	s.mu.Unlock()
	if len(cand) == 0 {
		return false
	}
	buf := make([]byte, 1<<20)
	for {
		n := runtime.Stack(buf, true)
		if n < len(buf) {
			buf = buf[:n]
			break
		}
		buf = make([]byte, 2*len(buf))
	}
	alive := map[int64]bool{}
	for _, line := range bytes.Split(buf, []byte("\n")) {
		if bytes.HasPrefix(line, []byte("goroutine ")) {
			rest := line[len("goroutine "):]
			if i := bytes.IndexByte(rest, ' '); i > 0 {
				if id, err := strconv.ParseInt(string(rest[:i]), 10, 64); err == nil {
					alive[id] = true
				}
			}
		}
	}
	reaped := false
	s.mu.Lock()
	for _, g := range cand {
		if !alive[g.goid] {
			g.state = stDone
			delete(s.byGoid, g.goid)
			reaped = true
		}
	}
	s.mu.Unlock()
	return reaped
}
