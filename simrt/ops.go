package simrt

import (
	"sync"
)

// ---- goroutines ----------------------------------------------------------

// Go replaces a go statement.
func Go(site string, f func()) {
	s := cur
	var parent *G
	if s != nil {
		parent = s.self()
	}
	if parent == nil {
		go func() {
			id := goid()
			outside.Store(id, true)
			defer outside.Delete(id)
			f()
		}()
		return
	}
	s.spawn(parent, site, parent.bg, f)
}

// Yield is a plain scheduling point.
func Yield(site string) {
	s := cur
	if s == nil {
		return
	}
	s.yield(s.self(), site)
}

// Block marks that the goroutine is about to perform a really blocking
// operation; Wake re-parks it after the operation completed, so that a
// goroutine woken by somebody else's step does not run on its own.
func Block(site string) {
	s := cur
	if s == nil {
		return
	}
	s.block(s.self(), site)
}

func Wake(site string) {
	s := cur
	if s == nil {
		return
	}
	s.yield(s.self(), site)
}

// ---- channels ------------------------------------------------------------

// Pre is the scheduling point before a channel operation; obj identifies the
// channel for the happens-before monitor.
func Pre(site string, obj any) {
	_ = obj
	s := cur
	if s == nil {
		return
	}
	g := s.self()
	s.yield(g, site)
}

// Sync records a synchronisation through obj (acquire and release) for the
// happens-before monitor.
func Sync(obj any) {
	s := cur
	if s == nil || s.HB == nil {
		return
	}
	s.hbSync(s.self(), obj)
}

// Recv replaces a receive expression <-c.
func Recv[T any](site string, c <-chan T) T {
	s := cur
	if s == nil {
		return <-c
	}
	g := s.self()
	s.yield(g, site)
	select {
	case v := <-c:
		s.hbSync(g, c)
		return v
	default:
	}
	s.block(g, site)
	v := <-c
	s.yield(g, site)
	s.hbSync(g, c)
	return v
}

// Recv2 replaces v, ok := <-c.
func Recv2[T any](site string, c <-chan T) (T, bool) {
	s := cur
	if s == nil {
		v, ok := <-c
		return v, ok
	}
	g := s.self()
	s.yield(g, site)
	select {
	case v, ok := <-c:
		s.hbSync(g, c)
		return v, ok
	default:
	}
	s.block(g, site)
	v, ok := <-c
	s.yield(g, site)
	s.hbSync(g, c)
	return v, ok
}

// ZeroOf returns zero values of a channel's element type, for the temporaries
// of a rewritten select.
func ZeroOf[T any](c <-chan T) (T, bool) {
	var z T
	return z, false
}

// Sel is the state of one rewritten select statement.
type Sel struct {
	s     *Sim
	g     *G
	site  string
	n     int
	start int
}

// SelBegin is the scheduling point before a select and draws the order in
// which the cases are attempted.
func SelBegin(site string, n int) Sel {
	s := cur
	if s == nil {
		return Sel{n: n}
	}
	g := s.self()
	if g == nil {
		return Sel{n: n}
	}
	// The order in which the cases are attempted is drawn by the scheduler
	// goroutine when it releases g (all decisions are taken in one place, in
	// step order; a goroutine never draws from the shared tapes itself).
	g.selCases = n
	s.yield(g, site)
	start := g.selStart
	g.selCases, g.selStart = 0, 0
	return Sel{s: s, g: g, site: site, n: n, start: start}
}

// At returns the index of the k-th case to attempt.
func (l *Sel) At(k int) int { return (l.start + k) % l.n }

// Block is called when no case was ready and the select has no default.
func (l *Sel) Block() {
	if l.s != nil {
		l.s.block(l.g, l.site)
	}
}

// Wake re-parks after the real blocking select completed.
func (l *Sel) Wake() {
	if l.s != nil {
		l.s.yield(l.g, l.site)
	}
}

// Fired records the channel of the case that fired.
func (l *Sel) Fired(obj any) {
	if l.s != nil && l.s.HB != nil {
		l.s.hbSync(l.g, obj)
	}
}

// ---- locks ---------------------------------------------------------------

type tryLocker interface {
	TryLock() bool
	Lock()
	Unlock()
}

type tryRLocker interface {
	TryRLock() bool
	RLock()
	RUnlock()
}

// Lock replaces mu.Lock() for sync.Mutex and sync.RWMutex (and types that
// embed them).
func Lock(site string, l tryLocker) {
	s := cur
	if s == nil {
		l.Lock()
		return
	}
	g := s.self()
	if g == nil {
		l.Lock()
		return
	}
	s.yield(g, site)
	for !l.TryLock() {
		s.Probe("lock-contended")
		s.parkUntil(g, site, "lock", waitProbe, func() bool {
			if l.TryLock() {
				l.Unlock()
				return true
			}
			return false
		})
	}
	s.hbAcquire(g, l)
}

// RLock replaces mu.RLock().
func RLock(site string, l tryRLocker) {
	s := cur
	if s == nil {
		l.RLock()
		return
	}
	g := s.self()
	if g == nil {
		l.RLock()
		return
	}
	s.yield(g, site)
	for !l.TryRLock() {
		s.Probe("rlock-contended")
		s.parkUntil(g, site, "rlock", waitProbe, func() bool {
			if l.TryRLock() {
				l.RUnlock()
				return true
			}
			return false
		})
	}
	s.hbAcquire(g, l)
}

// Unlock replaces mu.Unlock() (no scheduling point; feeds the monitor).
func Unlock(site string, l interface{ Unlock() }) {
	if s := cur; s != nil && s.HB != nil {
		s.hbRelease(s.self(), l)
	}
	l.Unlock()
}

// RUnlock replaces mu.RUnlock().
func RUnlock(site string, l interface{ RUnlock() }) {
	if s := cur; s != nil && s.HB != nil {
		s.hbRelease(s.self(), l)
	}
	l.RUnlock()
}

// ---- generic wrapped calls -------------------------------------------------

// Kinds of wrapped calls.
const (
	KNonBlocking = 0 // scheduling point before the call (atomic, Done, Add, cancel, Close, Release)
	KBlocking    = 1 // may block durably: scheduling point before and re-park after (Wait, Acquire, Once.Do)
)

// Call0 wraps a call without results.
func Call0(site string, kind int, obj any, f func()) {
	s := cur
	if s == nil {
		f()
		return
	}
	g := s.self()
	s.yield(g, site)
	if kind == KBlocking {
		s.block(g, site)
		f()
		s.yield(g, site)
	} else {
		if s.HB != nil && obj != nil {
			s.hbSync(g, obj)
		}
		f()
		return
	}
	if s.HB != nil && obj != nil {
		s.hbSync(g, obj)
	}
}

// Call1 wraps a call with one result.
func Call1[T any](site string, kind int, obj any, f func() T) T {
	s := cur
	if s == nil {
		return f()
	}
	g := s.self()
	s.yield(g, site)
	if kind == KBlocking {
		s.block(g, site)
		v := f()
		s.yield(g, site)
		if s.HB != nil && obj != nil {
			s.hbSync(g, obj)
		}
		return v
	}
	if s.HB != nil && obj != nil {
		s.hbSync(g, obj)
	}
	return f()
}

// Call2 wraps a call with two results.
func Call2[T, U any](site string, kind int, obj any, f func() (T, U)) (T, U) {
	s := cur
	if s == nil {
		return f()
	}
	g := s.self()
	s.yield(g, site)
	if kind == KBlocking {
		s.block(g, site)
		v, u := f()
		s.yield(g, site)
		if s.HB != nil && obj != nil {
			s.hbSync(g, obj)
		}
		return v, u
	}
	if s.HB != nil && obj != nil {
		s.hbSync(g, obj)
	}
	return f()
}

var _ sync.Locker = (*sync.Mutex)(nil)

// Tok carries the state of a wrapped call in expression context:
// simrt.Post1(simrt.PreV(site, kind, obj), call) — Go evaluates call operands
// left to right, so PreV's scheduling point precedes the call.
type Tok struct {
	s    *Sim
	g    *G
	site string
	kind int
	obj  any
}

func PreV(site string, kind int, obj any) Tok {
	s := cur
	if s == nil {
		return Tok{}
	}
	g := s.self()
	if g == nil {
		return Tok{}
	}
	s.yield(g, site)
	if kind == KBlocking {
		s.block(g, site)
	} else if s.HB != nil && obj != nil {
		s.hbSync(g, obj)
	}
	return Tok{s, g, site, kind, obj}
}

func Post1[T any](t Tok, v T) T {
	if t.s == nil {
		return v
	}
	if t.kind == KBlocking {
		t.s.yield(t.g, t.site)
		if t.s.HB != nil && t.obj != nil {
			t.s.hbSync(t.g, t.obj)
		}
	}
	return v
}
