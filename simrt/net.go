package simrt

import (
	"fmt"
	"net"
	"os"
	"sync"
	"syscall"
	"time"
)

// simnet: a simulated unix-socket namespace. A listening socket is a real
// marker file at the socket path (so that the code under test's Lstat/Remove
// calls see and remove it) holding the listener's generation number;
// connections are net.Pipe pairs queued to the listener's backlog. Errors are
// wrapped exactly as package net wraps them, so errors.Is(err,
// syscall.ECONNREFUSED) and os.IsNotExist classify as with real sockets
// (checked against the kernel by the conformance self-test).

// NetEvent is one event of the simulated socket namespace / process table.
type NetEvent struct {
	Step int
	Kind string // listen | listen-fail | dial-ok | dial-enoent | dial-refused | remove | remove-missing | close-unlink | lstat | signal
	Proc int
	Path string
	Gen  int // generation concerned (of the marker found / created)
	Err  string
}

type simListener struct {
	s       *Sim
	path    string
	gen     int
	proc    int
	backlog chan net.Conn
	closed  chan struct{}
	once    sync.Once

	noUnlink bool
}

type netState struct {
	mu        sync.Mutex
	listeners map[int]*simListener // by generation
	nextGen   int
	Events    []NetEvent
	conns     []*simConn
	srvConns  []srvConn
	sigHook   func(pid int, sig os.Signal) error
}

func (s *Sim) net() *netState {
	s.mu.Lock()
	defer s.mu.Unlock()
	if s.netst == nil {
		s.netst = &netState{listeners: map[int]*simListener{}, nextGen: 1}
	}
	return s.netst
}

// NetEvents returns the recorded namespace events.
func (s *Sim) NetEvents() []NetEvent {
	n := s.net()
	n.mu.Lock()
	defer n.mu.Unlock()
	return append([]NetEvent(nil), n.Events...)
}

func (n *netState) add(s *Sim, e NetEvent) {
	e.Step = s.Step
	n.mu.Lock()
	n.Events = append(n.Events, e)
	n.mu.Unlock()
}

// SetSignalHook installs the simulated kill(2).
func (s *Sim) SetSignalHook(f func(pid int, sig os.Signal) error) { s.net().sigHook = f }

// ListenerAlive reports whether the listener of generation gen is open.
func (s *Sim) ListenerAlive(gen int) bool {
	n := s.net()
	n.mu.Lock()
	l := n.listeners[gen]
	n.mu.Unlock()
	if l == nil {
		return false
	}
	select {
	case <-l.closed:
		return false
	default:
		return true
	}
}

// The socket file at a path is a REAL unix socket file (created by binding a
// real socket and closing it at once with unlink-on-close disabled), so that
// Lstat reports a socket and bind fails with EADDRINUSE exactly as with a live
// or stale socket. Which simulated listener it belongs to is recorded by
// inode.
var (
	markerMu  sync.Mutex
	markerGen = map[uint64]int{}
)

func inodeOf(path string) (uint64, bool) {
	fi, err := os.Lstat(path)
	if err != nil {
		return 0, false
	}
	st, ok := fi.Sys().(*syscall.Stat_t)
	if !ok {
		return 0, false
	}
	return st.Ino, true
}

// MarkerGen returns the generation of the listener that created the socket
// file at path (0 if there is none).
func MarkerGen(path string) int {
	ino, ok := inodeOf(path)
	if !ok {
		return 0
	}
	markerMu.Lock()
	defer markerMu.Unlock()
	return markerGen[ino]
}

// makeSocketFile binds a real socket at path and closes it, leaving the file.
func makeSocketFile(path string, gen int) error {
	l, err := net.ListenUnix("unix", &net.UnixAddr{Name: path, Net: "unix"})
	if err != nil {
		return err
	}
	l.SetUnlinkOnClose(false)
	l.Close()
	if ino, ok := inodeOf(path); ok {
		markerMu.Lock()
		markerGen[ino] = gen
		markerMu.Unlock()
	}
	return nil
}

// MakeStaleSocket leaves a socket file of a dead listener at path, as a
// crashed daemon does.
func (s *Sim) MakeStaleSocket(path string) int {
	n := s.net()
	n.mu.Lock()
	gen := n.nextGen
	n.nextGen++
	n.mu.Unlock()
	makeSocketFile(path, gen)
	return gen
}

func selfProc(s *Sim) (*G, int) {
	g := s.self()
	if g == nil {
		return nil, 0
	}
	return g, g.proc
}

// SetProcess declares that the calling goroutine (and every goroutine it
// starts from now on) belongs to simulated process pid.
func SetProcess(pid int) {
	if s := cur; s != nil {
		if g := s.self(); g != nil {
			g.proc = pid
		}
	}
}

// Getpid replaces syscall.Getpid in simulated processes.
func Getpid() int {
	if s := cur; s != nil {
		if g := s.self(); g != nil && g.proc != 0 {
			return g.proc
		}
	}
	return syscall.Getpid()
}

// ProcSignal replaces (*os.Process).Signal.
func ProcSignal(p *os.Process, sig os.Signal) error {
	if s := cur; s != nil {
		g, proc := selfProc(s)
		s.yield(g, "proc.Signal")
		n := s.net()
		n.add(s, NetEvent{Kind: "signal", Proc: proc, Gen: p.Pid})
		if n.sigHook != nil {
			return n.sigHook(p.Pid, sig)
		}
		return fmt.Errorf("simulated process %d not found", p.Pid)
	}
	return p.Signal(sig)
}

// NetListen replaces net.Listen for unix sockets.
func NetListen(network, path string) (net.Listener, error) {
	s := cur
	if s == nil || network != "unix" {
		return net.Listen(network, path)
	}
	g, proc := selfProc(s)
	s.yield(g, "net.Listen")
	n := s.net()
	n.mu.Lock()
	gen := n.nextGen
	n.nextGen++
	n.mu.Unlock()
	// the real bind decides, as the kernel would (EADDRINUSE if anything is at the path)
	if err := makeSocketFile(path, gen); err != nil {
		n.add(s, NetEvent{Kind: "listen-fail", Proc: proc, Path: path, Gen: MarkerGen(path), Err: err.Error()})
		return nil, err
	}
	l := &simListener{s: s, path: path, gen: gen, proc: proc, backlog: make(chan net.Conn, 128), closed: make(chan struct{})}
	n.mu.Lock()
	n.listeners[gen] = l
	n.mu.Unlock()
	n.add(s, NetEvent{Kind: "listen", Proc: proc, Path: path, Gen: gen})
	return l, nil
}

func (l *simListener) Accept() (net.Conn, error) {
	s := l.s
	g := s.self()
	s.yield(g, "net.Accept")
	select {
	case <-l.closed:
		return nil, &net.OpError{Op: "accept", Net: "unix", Err: net.ErrClosed}
	default:
	}
	select {
	case c := <-l.backlog:
		return c, nil
	default:
	}
	s.block(g, "net.Accept")
	select {
	case c := <-l.backlog:
		s.yield(g, "net.Accept")
		return c, nil
	case <-l.closed:
		s.yield(g, "net.Accept")
		return nil, &net.OpError{Op: "accept", Net: "unix", Err: net.ErrClosed}
	}
}

// Close closes the listener and, like net.UnixListener, unlinks the socket
// path if a file is there (whatever it is by now).
func (l *simListener) Close() error {
	s := l.s
	g, proc := selfProc(s)
	s.yield(g, "net.Listener.Close")
	already := true
	l.once.Do(func() {
		already = false
		close(l.closed)
		// connections still waiting in the backlog are reset
		for {
			select {
			case c := <-l.backlog:
				c.Close()
				continue
			default:
			}
			break
		}
		if _, err := os.Lstat(l.path); err == nil && !l.noUnlink {
			gen := MarkerGen(l.path)
			os.Remove(l.path)
			s.net().add(s, NetEvent{Kind: "close-unlink", Proc: proc, Path: l.path, Gen: gen})
		}
	})
	if already {
		return &net.OpError{Op: "close", Net: "unix", Err: net.ErrClosed}
	}
	return nil
}

// SetUnlinkOnClose mirrors (*net.UnixListener).SetUnlinkOnClose.
func (l *simListener) SetUnlinkOnClose(unlink bool) { l.noUnlink = !unlink }

func (l *simListener) Addr() net.Addr { return &net.UnixAddr{Name: l.path, Net: "unix"} }

// NetDial replaces net.Dial for unix sockets.
func NetDial(network, path string) (net.Conn, error) {
	s := cur
	if s == nil || network != "unix" {
		return net.Dial(network, path)
	}
	g, proc := selfProc(s)
	s.yield(g, "net.Dial")
	n := s.net()
	addr := &net.UnixAddr{Name: path, Net: "unix"}
	if _, err := os.Lstat(path); err != nil {
		n.add(s, NetEvent{Kind: "dial-enoent", Proc: proc, Path: path})
		return nil, &net.OpError{Op: "dial", Net: "unix", Addr: addr, Err: os.NewSyscallError("connect", syscall.ENOENT)}
	}
	gen := MarkerGen(path)
	n.mu.Lock()
	l := n.listeners[gen]
	n.mu.Unlock()
	alive := l != nil
	if alive {
		select {
		case <-l.closed:
			alive = false
		default:
		}
	}
	if !alive {
		n.add(s, NetEvent{Kind: "dial-refused", Proc: proc, Path: path, Gen: gen})
		return nil, &net.OpError{Op: "dial", Net: "unix", Addr: addr, Err: os.NewSyscallError("connect", syscall.ECONNREFUSED)}
	}
	c1, c2 := net.Pipe()
	srv := &simConn{Conn: c2, s: s}
	RegisterStable(net.Conn(srv)) // connections are map keys in the daemon: creation order is their identity
	n.mu.Lock()
	n.srvConns = append(n.srvConns, srvConn{proc: l.proc, c: srv})
	n.mu.Unlock()
	select {
	case l.backlog <- srv:
	default:
		c1.Close()
		c2.Close()
		return nil, &net.OpError{Op: "dial", Net: "unix", Addr: addr, Err: os.NewSyscallError("connect", syscall.EAGAIN)}
	}
	n.add(s, NetEvent{Kind: "dial-ok", Proc: proc, Path: path, Gen: gen})
	cc := &simConn{Conn: c1, s: s}
	n.mu.Lock()
	n.conns = append(n.conns, cc)
	n.mu.Unlock()
	return cc, nil
}

type srvConn struct {
	proc int
	c    *simConn
}

// ExitProcess models the end of simulated process pid: the kernel closes
// every socket the process still holds — its listeners and the server side of
// every connection made to them (accepted or still in the backlog) — so peers
// see end-of-file instead of waiting forever. It may be called from a task.
func (s *Sim) ExitProcess(pid int) {
	n := s.net()
	n.mu.Lock()
	var conns []*simConn
	for _, sc := range n.srvConns {
		if sc.proc == pid {
			conns = append(conns, sc.c)
		}
	}
	var ls []*simListener
	for _, l := range n.listeners {
		if l.proc == pid {
			ls = append(ls, l)
		}
	}
	n.mu.Unlock()
	for _, c := range conns {
		c.Conn.Close()
	}
	for _, l := range ls {
		l.once.Do(func() { close(l.closed) })
	}
	// The exit of a process ends all its threads: goroutines of the process
	// that are blocked for good (e.g. handlers blocked on a channel nobody
	// reads any more) no longer count as live for deadlock and leak verdicts
	// (see Run); those that can still run are left to finish.
	self := s.self()
	s.mu.Lock()
	for _, g := range s.all {
		if g.proc == pid && g != self && g.state != stDone {
			g.procExited = true
		}
	}
	s.mu.Unlock()
}

// NumConns returns how many connections have been dialed so far.
func (s *Sim) NumConns() int {
	n := s.net()
	n.mu.Lock()
	defer n.mu.Unlock()
	return len(n.conns)
}

// DropConn closes the idx-th dialed connection abruptly (both directions), as
// a network fault or a peer crash does. It may be called from OnStep.
func (s *Sim) DropConn(idx int) bool {
	n := s.net()
	n.mu.Lock()
	defer n.mu.Unlock()
	if idx < 0 || idx >= len(n.conns) {
		return false
	}
	n.conns[idx].Conn.Close()
	return true
}

// simConn adds scheduling points around every read and write of a simulated
// connection (the endpoints are used by un-instrumented codecs).
type simConn struct {
	net.Conn
	s *Sim
	// fault injection: when set, the connection is cut after this many more
	// bytes have been written through this endpoint (negative: never).
	cutAfter int
	cutArmed bool
}

func (c *simConn) Read(p []byte) (int, error) {
	s := c.s
	if cur != s {
		return c.Conn.Read(p)
	}
	g := s.self()
	s.yield(g, "net.Read")
	s.block(g, "net.Read")
	n, err := c.Conn.Read(p)
	s.yield(g, "net.Read")
	return n, err
}

func (c *simConn) Write(p []byte) (int, error) {
	s := c.s
	if cur != s {
		return c.Conn.Write(p)
	}
	g := s.self()
	s.yield(g, "net.Write")
	if c.cutArmed {
		if c.cutAfter <= 0 {
			c.Conn.Close()
		} else if len(p) > c.cutAfter {
			// a torn message: only a prefix reaches the peer
			s.block(g, "net.Write")
			n, _ := c.Conn.Write(p[:c.cutAfter])
			c.cutAfter = 0
			c.Conn.Close()
			s.yield(g, "net.Write")
			return n, &net.OpError{Op: "write", Net: "unix", Err: syscall.EPIPE}
		} else {
			c.cutAfter -= len(p)
		}
	}
	s.block(g, "net.Write")
	n, err := c.Conn.Write(p)
	s.yield(g, "net.Write")
	return n, err
}

func (c *simConn) Close() error {
	s := c.s
	if cur == s {
		s.yield(s.self(), "net.Close")
	}
	return c.Conn.Close()
}

// CutConnAfter arms a connection fault on conn (which must come from
// NetDial): after n more bytes written by this endpoint the connection is
// closed, possibly in the middle of a message.
func CutConnAfter(conn net.Conn, n int) bool {
	if c, ok := conn.(*simConn); ok {
		c.cutAfter, c.cutArmed = n, true
		return true
	}
	return false
}

// FSLstat and FSRemove replace os.Lstat / os.Remove in the daemon package:
// scheduling points plus an event record (the marker files are real files).
func FSLstat(path string) (os.FileInfo, error) {
	if s := cur; s != nil {
		g, proc := selfProc(s)
		s.yield(g, "fs.Lstat")
		fi, err := os.Lstat(path)
		e := NetEvent{Kind: "lstat", Proc: proc, Path: path}
		if err == nil {
			e.Gen = MarkerGen(path)
		} else {
			e.Err = "missing"
		}
		s.net().add(s, e)
		return fi, err
	}
	return os.Lstat(path)
}

func FSRemove(path string) error {
	if s := cur; s != nil {
		g, proc := selfProc(s)
		s.yield(g, "fs.Remove")
		gen := MarkerGen(path)
		err := os.Remove(path)
		if err == nil {
			s.net().add(s, NetEvent{Kind: "remove", Proc: proc, Path: path, Gen: gen})
		} else {
			s.net().add(s, NetEvent{Kind: "remove-missing", Proc: proc, Path: path, Err: err.Error()})
		}
		return err
	}
	return os.Remove(path)
}

var _ = time.Now
