// Package simrt is the deterministic simulation runtime that is linked into an
// instrumented scratch copy of elves/elvish. The real code runs as real
// goroutines inside a testing/synctest bubble (fake clock, quiescence
// detection); every instrumented synchronisation point parks the calling
// goroutine and a seeded scheduler releases exactly one parked goroutine at a
// time, so one seed is one total order of steps.
//
// When no simulation is active (cur == nil) every entry point is a thin
// pass-through to the operation it replaces.
package simrt

import (
	"fmt"
	"hash/fnv"
	"os"
	"runtime"
	"runtime/debug"
	"sort"
	"strconv"
	"strings"
	"sync"
	"sync/atomic"
	"testing/synctest"
	"time"
)

// Goroutine states.
const (
	stRunning int32 = iota
	stParked
	stBlocked
	stDone
)

// Kinds of conditional parking.
const (
	waitNone = iota
	waitFD
	waitProbe
)

// G is one simulated goroutine.
type G struct {
	ID     string
	goid   int64
	park   chan struct{}
	state  int32
	site   string
	nchild int
	extern bool
	bg     bool // excluded from leak/deadlock accounting (declared background)
	proc   int  // simulated process id (inherited by children)
	// the simulated process this goroutine belongs to has exited
	procExited bool

	stalledUntil time.Duration // fault: not runnable before this fake time

	selCases, selStart int // pending select: number of cases / chosen first case

	wait     int
	waitDesc string
	probe    func() bool

	prio  float64 // PCT priority
	vc    vclock
	epoch int
	last  int // step at which it last ran
}

func (g *G) String() string { return g.ID }

// Verdict is an engine-level failure.
type Verdict struct {
	Class  string // panic | deadlock | leak | budget
	Detail string
	Stack  string
	Step   int
}

func (v *Verdict) Error() string { return v.Class + ": " + v.Detail }

// TraceEntry is one scheduling step.
type TraceEntry struct {
	Step  int    `json:"step"`
	G     string `json:"g"`
	Site  string `json:"site"`
	Ready int    `json:"ready"`
	Note  string `json:"note,omitempty"`
}

// Sim is one simulation.
type Sim struct {
	mu      sync.Mutex
	minGoid int64
	byGoid  map[int64]*G
	all     []*G
	nextX   int

	wake chan struct{}

	Tapes *Tapes
	Strat Strategy

	MaxSteps int
	Horizon  time.Duration
	Step     int
	last     *G

	// OnStep is called by the scheduler before every decision, with all other
	// goroutines quiescent. It may inject faults or check invariants; a
	// non-nil error ends the run as an oracle violation.
	OnStep func(step int) error

	KeepTrace bool
	Trace     []TraceEntry
	hash      uint64
	sigHash   uint64
	Choices   int // steps with |R| > 1
	start     time.Time

	verdict  atomic.Pointer[Verdict]
	stopping atomic.Bool

	Probes map[string]int
	probMu sync.Mutex

	HB *hbState

	fdPolls int
	netst   *netState

	stalls      []*StallRule
	StallsFired int
	// Leftover is the number of goroutines of exited simulated processes that
	// were still blocked when the simulation ended: they stay blocked in the
	// bubble (a real process exit would have ended them).
	Leftover int
	// ExternBeside counts goroutines started by un-instrumented code that made
	// their first contact while the scheduled goroutine was still running.
	ExternBeside int
}

// StallRule is a "slow party" fault: the Nth time (counting from 0) a
// goroutine is about to be released from a scheduling point whose site
// contains Site, it is descheduled for Dur of fake time instead.
type StallRule struct {
	Site string
	Nth  int
	Dur  time.Duration
	done bool
}

// AddStall registers a stall fault.
func (s *Sim) AddStall(site string, nth int, d time.Duration) {
	s.stalls = append(s.stalls, &StallRule{Site: site, Nth: nth, Dur: d})
}

func (s *Sim) stallFor(g *G) time.Duration {
	for _, r := range s.stalls {
		if r.done || !strings.Contains(g.site, r.Site) {
			continue
		}
		if r.Nth > 0 {
			r.Nth--
			continue
		}
		r.done = true
		return r.Dur
	}
	return 0
}

var cur *Sim

// outside holds the ids of goroutines started through Go while no simulation
// was active (package-level helpers such as eval's blackhole drain). They live
// outside any synctest bubble and pass straight through every instrumented
// operation even while a simulation runs.
var outside sync.Map

// progress is bumped on every scheduler step; the real-time watchdog (outside
// the bubble) reads it.
var progress atomic.Int64

// Active reports whether a simulation is running.
func Active() bool { return cur != nil }

// Cur returns the active simulation.
func Cur() *Sim { return cur }

// New creates a simulation. It must be called inside a synctest bubble, on the
// goroutine that will call Run.
func New(t *Tapes) *Sim {
	s := &Sim{
		byGoid:   map[int64]*G{},
		wake:     make(chan struct{}, 1),
		Tapes:    t,
		MaxSteps: 400000,
		Horizon:  24 * time.Hour * 365,
		Probes:   map[string]int{},
		hash:     14695981039346656037,
		sigHash:  14695981039346656037,
		start:    time.Now(),
	}
	s.Strat = pickStrategy(t)
	ResetStable()
	return s
}

func goid() int64 {
	var buf [64]byte
	n := runtime.Stack(buf[:], false)
	// "goroutine 123 ["
	b := buf[10:n]
	var id int64
	for _, c := range b {
		if c < '0' || c > '9' {
			break
		}
		id = id*10 + int64(c-'0')
	}
	return id
}

// self returns the simulated goroutine of the caller, or nil when the caller
// is a goroutine that existed before the simulation started (it lives outside
// the synctest bubble, e.g. a package-level drain goroutine): such callers
// pass straight through every instrumented operation.
func (s *Sim) self() *G {
	id := goid()
	if _, ok := outside.Load(id); ok {
		return nil
	}
	s.mu.Lock()
	g := s.byGoid[id]
	if g == nil {
		// A goroutine born in un-instrumented code: register on first contact.
		s.nextX++
		g = &G{ID: "x" + strconv.Itoa(s.nextX), goid: id, park: make(chan struct{}), extern: true}
		g.prio = s.Strat.newPrio(s, g.ID)
		s.byGoid[id] = g
		s.all = append(s.all, g)
		s.hbFork(nil, g)
		if r := s.last; r != nil && r.state == stRunning {
			// The goroutine the scheduler released is still running while this
			// one, started by un-instrumented code, reaches its first
			// instrumented operation: the two ran side by side, outside the
			// scheduler's control. Harmless only if they shared nothing in the
			// meantime; a harness must park the spawner right after such a
			// goroutine is started (see c44.go). A debugging aid: the count
			// also includes the harmless case where the new goroutine merely
			// got to its first operation before the spawner parked; what
			// decides is the determinism self-test.
			s.ExternBeside++
		}
	}
	s.mu.Unlock()
	return g
}

// BudgetScale multiplies every simulation's step budget. The worker raises it
// to re-run an evaluation whose budget ran out: a long evaluation completes
// under the larger budget (not a violation), a livelock does not.
var BudgetScale = 1

// Probe counts a rare condition.
func (s *Sim) Probe(name string) {
	s.probMu.Lock()
	s.Probes[name]++
	s.probMu.Unlock()
}

// Probe counts a rare condition on the active simulation, if any.
func Probe(name string) {
	if s := cur; s != nil {
		s.Probe(name)
	}
}

func (s *Sim) poke() {
	select {
	case s.wake <- struct{}{}:
	default:
	}
}

// yield parks g until the scheduler releases it.
func (s *Sim) yield(g *G, site string) {
	if g == nil {
		return
	}
	if s.stopping.Load() {
		s.freeze()
	}
	g.site = site
	s.mu.Lock()
	g.wait = waitNone
	g.state = stParked
	s.mu.Unlock()
	s.poke()
	<-g.park
}

// parkUntil parks g until probe() holds (evaluated by the scheduler at a
// barrier) and the scheduler releases it.
func (s *Sim) parkUntil(g *G, site, desc string, kind int, probe func() bool) {
	if g == nil {
		return
	}
	if s.stopping.Load() {
		s.freeze()
	}
	g.site = site
	s.mu.Lock()
	g.wait = kind
	g.waitDesc = desc
	g.probe = probe
	g.state = stParked
	s.mu.Unlock()
	s.poke()
	<-g.park
}

// freeze blocks the calling goroutine forever (durably); used once a verdict
// has been reached so that nothing else runs.
func (s *Sim) freeze() {
	select {}
}

func (s *Sim) block(g *G, site string) {
	if g == nil {
		return
	}
	g.site = site
	atomic.StoreInt32(&g.state, stBlocked)
}

// spawn registers a child of parent and starts it parked.
func (s *Sim) spawn(parent *G, site string, bg bool, f func()) *G {
	s.mu.Lock()
	var id string
	if parent == nil {
		s.nextX++
		id = "t" + strconv.Itoa(s.nextX)
	} else {
		parent.nchild++
		id = parent.ID + "." + strconv.Itoa(parent.nchild)
	}
	g := &G{ID: id, park: make(chan struct{}), state: stParked, site: site, bg: bg}
	if parent != nil {
		g.proc = parent.proc
	}
	g.prio = s.Strat.newPrio(s, g.ID)
	s.all = append(s.all, g)
	s.hbFork(parent, g)
	s.mu.Unlock()
	go func() {
		g.goid = goid()
		s.mu.Lock()
		s.byGoid[g.goid] = g
		s.mu.Unlock()
		defer s.exit(g)
		s.poke()
		<-g.park
		f()
	}()
	return g
}

func (s *Sim) exit(g *G) {
	if r := recover(); r != nil {
		s.fail(&Verdict{Class: "panic", Detail: fmt.Sprint(r), Stack: string(debug.Stack()), Step: s.Step})
		s.mu.Lock()
		g.state = stDone
		delete(s.byGoid, g.goid)
		s.mu.Unlock()
		s.poke()
		return
	}
	s.mu.Lock()
	g.state = stDone
	delete(s.byGoid, g.goid)
	s.mu.Unlock()
	s.poke()
}

// fail records the first verdict and stops scheduling.
func (s *Sim) fail(v *Verdict) {
	if s.verdict.CompareAndSwap(nil, v) {
		s.stopping.Store(true)
	}
}

// Fail lets a harness oracle end the run with a violation from inside a task.
func (s *Sim) Fail(class, detail string) {
	s.fail(&Verdict{Class: class, Detail: detail, Step: s.Step})
}

// Spawn starts a top-level harness task.
func (s *Sim) Spawn(name string, f func()) *G {
	return s.spawn(nil, "task:"+name, false, f)
}

// SpawnBG starts a harness task that is not counted for leak or deadlock
// verdicts (e.g. a daemon expected to outlive the workload).
func (s *Sim) SpawnBG(name string, f func()) *G {
	return s.spawn(nil, "task:"+name, true, f)
}

// Now returns the fake time elapsed since the simulation was created.
func (s *Sim) Now() time.Duration { return time.Since(s.start) }

func lessID(a, b string) bool {
	if len(a) != len(b) {
		// compare path components numerically
		as, bs := strings.Split(a, "."), strings.Split(b, ".")
		for i := 0; i < len(as) && i < len(bs); i++ {
			if as[i] != bs[i] {
				if len(as[i]) != len(bs[i]) {
					return len(as[i]) < len(bs[i])
				}
				return as[i] < bs[i]
			}
		}
		return len(as) < len(bs)
	}
	return a < b
}

// Run drives the simulation until every non-background goroutine has finished
// (nil), or a verdict is reached. After Run returns with a verdict the
// bubble still contains frozen goroutines; the caller must report and exit the
// process.
func (s *Sim) Run() *Verdict {
	cur = s
	defer func() { cur = nil }()
	idle := 0
	for {
		synctest.Wait()
		progress.Add(1)
		if v := s.verdict.Load(); v != nil {
			return v
		}
		if s.OnStep != nil {
			if err := s.OnStep(s.Step); err != nil {
				v := &Verdict{Class: "oracle", Detail: err.Error(), Step: s.Step}
				s.fail(v)
				return v
			}
			// A fault injected by OnStep (e.g. a cancellation) may have woken
			// blocked goroutines: let them reach their next scheduling point.
			synctest.Wait()
			if v := s.verdict.Load(); v != nil {
				return v
			}
		}
		// Collect the ready set.
		s.mu.Lock()
		var ready []*G
		var nextStall time.Duration
		live, liveFG, leftover := 0, 0, 0
		for _, g := range s.all {
			if g.state == stDone {
				continue
			}
			if g.procExited && g.state == stBlocked {
				// a thread of a process that has exited, blocked in a real
				// channel operation: it died with its process
				leftover++
				continue
			}
			live++
			if !g.bg {
				liveFG++
			}
			if g.state != stParked {
				continue
			}
			if g.wait != waitNone && !g.probe() {
				continue
			}
			if g.stalledUntil > 0 {
				// a stalled goroutine (simulated descheduling) is not runnable
				// until the fake clock reaches the end of its stall
				if now := s.Now(); g.stalledUntil > now {
					if nextStall == 0 || g.stalledUntil < nextStall {
						nextStall = g.stalledUntil
					}
					continue
				}
				g.stalledUntil = 0
			}
			ready = append(ready, g)
		}
		s.mu.Unlock()
		if liveFG == 0 {
			s.Leftover = leftover
			return nil
		}
		if len(ready) == 0 && s.reapExterns() {
			continue
		}
		if len(ready) == 0 {
			// Nothing runnable: let the fake clock advance to the next timer
			// (or to the end of the earliest stall).
			idle++
			wait := s.Horizon
			if nextStall > 0 {
				wait = nextStall - s.Now()
			}
			t := time.NewTimer(wait)
			select {
			case <-s.wake:
				t.Stop()
			case <-t.C:
				if nextStall > 0 {
					continue
				}
				v := &Verdict{Class: "deadlock", Detail: s.describeLive(), Step: s.Step}
				s.fail(v)
				return v
			}
			continue
		}
		sort.Slice(ready, func(i, j int) bool { return lessID(ready[i].ID, ready[j].ID) })
		if s.last != nil {
			for i, g := range ready {
				if g == s.last {
					copy(ready[1:i+1], ready[0:i])
					ready[0] = g
					break
				}
			}
		}
		idx := 0
		if len(ready) > 1 {
			idx = s.choose(ready)
			s.Choices++
		}
		g := ready[idx]
		if d := s.stallFor(g); d > 0 {
			// Fault: the chosen goroutine is descheduled for d of fake time
			// instead of running now (a slow or preempted party).
			g.stalledUntil = s.Now() + d
			s.StallsFired++
			s.Note("fault:stall " + g.ID + " at " + g.site + " for " + d.String())
			continue
		}
		s.record(g, len(ready))
		s.Step++
		if s.Step > s.MaxSteps*BudgetScale {
			v := &Verdict{Class: "budget", Detail: fmt.Sprintf("step budget %d exhausted; live: %s", s.MaxSteps*BudgetScale, s.describeLive()), Step: s.Step}
			s.fail(v)
			return v
		}
		s.last = g
		g.last = s.Step
		if g.selCases > 1 {
			// g is entering a select: decide the order of its cases
			t := s.Tapes.Sched
			if t.Replaying() {
				g.selStart = t.Draw(g.selCases)
			} else {
				g.selStart = s.Tapes.srng.IntN(g.selCases)
				t.Put(g.selStart)
			}
		}
		s.mu.Lock()
		g.state = stRunning
		g.wait = waitNone
		s.mu.Unlock()
		g.park <- struct{}{}
	}
}

func (s *Sim) choose(ready []*G) int {
	t := s.Tapes.Sched
	if t.Replaying() {
		return t.Draw(len(ready))
	}
	idx := s.Strat.pick(s, ready)
	t.Put(idx)
	return idx
}

func (s *Sim) record(g *G, nready int) {
	h := fnv.New64a()
	var b [8]byte
	put := func(x uint64) {
		for i := 0; i < 8; i++ {
			b[i] = byte(x >> (8 * i))
		}
		h.Write(b[:])
	}
	put(s.hash)
	h.Write([]byte(g.ID))
	h.Write([]byte(g.site))
	put(uint64(nready))
	s.hash = h.Sum64()
	if nready > 1 {
		h2 := fnv.New64a()
		put2 := func(x uint64) {
			for i := 0; i < 8; i++ {
				b[i] = byte(x >> (8 * i))
			}
			h2.Write(b[:])
		}
		put2(s.sigHash)
		h2.Write([]byte(g.ID))
		h2.Write([]byte(g.site))
		s.sigHash = h2.Sum64()
	}
	if s.KeepTrace {
		s.Trace = append(s.Trace, TraceEntry{Step: s.Step, G: g.ID, Site: g.site, Ready: nready})
	}
}

// Note adds a free-form entry (e.g. an injected fault) to the trace and the
// trace hash.
func (s *Sim) Note(note string) {
	h := fnv.New64a()
	var b [8]byte
	for i := 0; i < 8; i++ {
		b[i] = byte(s.hash >> (8 * i))
	}
	h.Write(b[:])
	h.Write([]byte(note))
	s.hash = h.Sum64()
	h2 := fnv.New64a()
	for i := 0; i < 8; i++ {
		b[i] = byte(s.sigHash >> (8 * i))
	}
	h2.Write(b[:])
	h2.Write([]byte(note))
	s.sigHash = h2.Sum64()
	if s.KeepTrace {
		s.Trace = append(s.Trace, TraceEntry{Step: s.Step, Note: note})
	}
}

// Hash is the hash of the full event log so far.
func (s *Sim) Hash() uint64 { return s.hash }

// Signature is the interleaving signature: hash over steps that had a real
// choice, plus notes.
func (s *Sim) Signature() uint64 { return s.sigHash }

func (s *Sim) describeLive() string {
	s.mu.Lock()
	defer s.mu.Unlock()
	var parts []string
	for _, g := range s.all {
		if g.state == stDone {
			continue
		}
		st := "blocked"
		if g.state == stParked {
			st = "parked"
			if g.wait != waitNone {
				st = "waiting(" + g.waitDesc + ")"
			}
		}
		parts = append(parts, g.ID+"@"+g.site+":"+st)
	}
	sort.Strings(parts)
	if len(parts) > 12 {
		parts = append(parts[:12], fmt.Sprintf("… %d more", len(parts)-12))
	}
	return strings.Join(parts, " ")
}

// Live returns the ids of goroutines that have not finished.
func (s *Sim) Live() []string {
	s.mu.Lock()
	defer s.mu.Unlock()
	var ids []string
	for _, g := range s.all {
		if g.state != stDone {
			ids = append(ids, g.ID+"@"+g.site)
		}
	}
	sort.Strings(ids)
	return ids
}

// NumGoroutines returns how many goroutines were ever registered.
func (s *Sim) NumGoroutines() int {
	s.mu.Lock()
	defer s.mu.Unlock()
	return len(s.all)
}

// StartWatchdog starts a real-time watchdog outside any bubble: if the
// scheduler makes no progress for d of real time the process dumps all stacks
// and exits with status 2 (infrastructure trouble, never a violation).
func StartWatchdog(d time.Duration) {
	go func() {
		last := progress.Load()
		for {
			time.Sleep(d)
			now := progress.Load()
			if now == last && cur != nil {
				buf := make([]byte, 1<<20)
				n := runtime.Stack(buf, true)
				fmt.Fprintf(os.Stderr, "simrt watchdog: no scheduler progress for %v (step %d); a goroutine is blocked non-durably in un-instrumented code\n%s\n", d, cur.Step, buf[:n])
				os.Exit(2)
			}
			last = now
		}
	}()
}

// SelfID returns the simulated goroutine id of the caller ("" outside a
// simulation).
func SelfID() string {
	s := cur
	if s == nil {
		return ""
	}
	if g := s.self(); g != nil {
		return g.ID
	}
	return ""
}

// CurStep returns the current scheduler step of the active simulation.
func CurStep() int {
	if s := cur; s != nil {
		return s.Step
	}
	return 0
}

// LiveDescendants returns the ids of unfinished goroutines spawned (directly
// or indirectly) by goroutine id.
func (s *Sim) LiveDescendants(id string) []string {
	s.mu.Lock()
	defer s.mu.Unlock()
	var ids []string
	for _, g := range s.all {
		if g.state != stDone && strings.HasPrefix(g.ID, id+".") {
			ids = append(ids, g.ID+"@"+g.site)
		}
	}
	sort.Strings(ids)
	return ids
}
