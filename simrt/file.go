package simrt

import (
	"io"
	"os"
	"sync/atomic"

	"golang.org/x/sys/unix"
)

// SimFile wraps an *os.File wherever the instrumented code converts it to an
// I/O interface or calls Read/Write on it. Blocking in read(2)/write(2) on a
// pipe is "IO wait", which synctest does not consider durable, so the wrapper
// never enters a system call that could block: it polls the descriptor with a
// zero timeout and parks as an fd-waiter until the scheduler's own poll says
// the operation can proceed.
type SimFile struct {
	*os.File
}

// File wraps f.
func File(f *os.File) *SimFile { return &SimFile{f} }

// PipeCap, when non-zero, is the capacity given to pipes created through Pipe.
var PipeCap atomic.Int64

// Pipe replaces os.Pipe.
func Pipe() (*os.File, *os.File, error) {
	r, w, err := os.Pipe()
	if err != nil || cur == nil {
		return r, w, err
	}
	if c := PipeCap.Load(); c > 0 {
		if rc, e := w.SyscallConn(); e == nil {
			rc.Control(func(fd uintptr) {
				unix.FcntlInt(fd, unix.F_SETPIPE_SZ, int(c))
			})
		}
	}
	return r, w, err
}

func pollFD(f *os.File, events int16) bool {
	rc, err := f.SyscallConn()
	if err != nil {
		return true // closed: let the real call report it
	}
	ready := true
	rc.Control(func(fd uintptr) {
		fds := []unix.PollFd{{Fd: int32(fd), Events: events}}
		for {
			n, err := unix.Poll(fds, 0)
			if err == unix.EINTR {
				continue
			}
			if err != nil {
				ready = true
				return
			}
			ready = n > 0 && fds[0].Revents != 0
			return
		}
	})
	return ready
}

func (w *SimFile) waitFD(site string, events int16, desc string) {
	s := cur
	if s == nil {
		return
	}
	g := s.self()
	if g == nil {
		return
	}
	s.yield(g, site)
	f := w.File
	for !pollFD(f, events) {
		if events == unix.POLLIN {
			s.Probe("reader-blocked-on-empty-pipe")
		} else {
			s.Probe("writer-blocked-on-full-pipe")
		}
		s.parkUntil(g, site, desc, waitFD, func() bool { return pollFD(f, events) })
	}
}

func (w *SimFile) Read(p []byte) (int, error) {
	w.waitFD("file.Read", unix.POLLIN, "fd-readable")
	n, err := w.File.Read(p)
	if cur != nil {
		cur.hbSync(cur.self(), w.File)
	}
	return n, err
}

const pipeBuf = 4096

func (w *SimFile) Write(p []byte) (int, error) {
	if cur == nil {
		return w.File.Write(p)
	}
	total := 0
	for {
		chunk := p
		if len(chunk) > pipeBuf {
			chunk = chunk[:pipeBuf]
		}
		w.waitFD("file.Write", unix.POLLOUT, "fd-writable")
		if cur != nil {
			cur.hbSync(cur.self(), w.File)
		}
		n, err := w.File.Write(chunk)
		total += n
		if err != nil {
			return total, err
		}
		p = p[len(chunk):]
		if len(p) == 0 {
			return total, nil
		}
	}
}

func (w *SimFile) WriteString(s string) (int, error) {
	if cur == nil {
		return w.File.WriteString(s)
	}
	return w.Write([]byte(s))
}

// ReadFrom and WriteTo hide (*os.File)'s splice/sendfile fast paths, which
// would block in the kernel.
func (w *SimFile) ReadFrom(r io.Reader) (int64, error) {
	if cur == nil {
		return w.File.ReadFrom(r)
	}
	buf := make([]byte, 32*1024)
	var total int64
	for {
		n, err := r.Read(buf)
		if n > 0 {
			m, werr := w.Write(buf[:n])
			total += int64(m)
			if werr != nil {
				return total, werr
			}
		}
		if err == io.EOF {
			return total, nil
		}
		if err != nil {
			return total, err
		}
	}
}

func (w *SimFile) WriteTo(dst io.Writer) (int64, error) {
	if cur == nil {
		return w.File.WriteTo(dst)
	}
	buf := make([]byte, 32*1024)
	var total int64
	for {
		n, err := w.Read(buf)
		if n > 0 {
			m, werr := dst.Write(buf[:n])
			total += int64(m)
			if werr != nil {
				return total, werr
			}
		}
		if err == io.EOF {
			return total, nil
		}
		if err != nil {
			return total, err
		}
	}
}

// Close is a scheduling point followed by the real close.
func (w *SimFile) Close() error {
	if s := cur; s != nil {
		g := s.self()
		s.yield(g, "file.Close")
		s.hbSync(g, w.File)
	}
	return w.File.Close()
}
