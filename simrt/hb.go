package simrt

import (
	"fmt"
	"reflect"
)

// A small happens-before monitor (vector clocks) over designated shared
// state. It is fed by the synchronisation the instrumentation can see: go
// statements, channel operations, mutexes, WaitGroups, atomics, semaphores.
// Synchronisation it does not see could only add order; the designated state
// is not protected by un-instrumented primitives, so a report is a real pair
// of conflicting accesses unordered by happens-before.

type vclock map[*G]int

func (v vclock) join(o vclock) {
	for g, c := range o {
		if v[g] < c {
			v[g] = c
		}
	}
}

func (v vclock) clone() vclock {
	n := make(vclock, len(v))
	for g, c := range v {
		n[g] = c
	}
	return n
}

type access struct {
	g     *G
	epoch int
	site  string
	step  int
}

type varState struct {
	lastWrite *access
	reads     map[*G]*access
	// keep holds the monitored object itself: while the monitor remembers
	// accesses to an address, the object must not be collected, or a new object
	// allocated at the same address would inherit them (a false report).
	keep any
}

type hbState struct {
	objs map[any]vclock
	vars map[any]*varState
	// Races found (first one becomes the verdict).
	Races []string
	// Checked counts monitored accesses.
	Checked int
	// CrossChecked counts accesses that were compared with another
	// goroutine's earlier access to the same object.
	CrossChecked int
}

// EnableHB switches the monitor on for this simulation.
func (s *Sim) EnableHB() {
	s.HB = &hbState{objs: map[any]vclock{}, vars: map[any]*varState{}}
}

func objKey(obj any) any {
	if obj == nil {
		return nil
	}
	v := reflect.ValueOf(obj)
	switch v.Kind() {
	case reflect.Pointer, reflect.Chan, reflect.Map, reflect.UnsafePointer, reflect.Func:
		return v.Pointer()
	}
	return obj
}

func (s *Sim) hbFork(parent, child *G) {
	// called with s.mu held
	child.vc = vclock{}
	if parent != nil && parent.vc != nil {
		child.vc.join(parent.vc)
		parent.epoch++
		parent.vc[parent] = parent.epoch
	}
	child.epoch = 1
	child.vc[child] = 1
}

func (s *Sim) hbSync(g *G, obj any) {
	if s.HB == nil || obj == nil || g == nil {
		return
	}
	s.mu.Lock()
	defer s.mu.Unlock()
	k := objKey(obj)
	ov := s.HB.objs[k]
	if ov == nil {
		ov = vclock{}
		s.HB.objs[k] = ov
	}
	g.vc.join(ov)
	ov.join(g.vc)
	g.epoch++
	g.vc[g] = g.epoch
}

func (s *Sim) hbAcquire(g *G, obj any) {
	if s.HB == nil || g == nil {
		return
	}
	s.mu.Lock()
	defer s.mu.Unlock()
	if ov := s.HB.objs[objKey(obj)]; ov != nil {
		g.vc.join(ov)
	}
}

func (s *Sim) hbRelease(g *G, obj any) {
	if s.HB == nil || g == nil {
		return
	}
	s.mu.Lock()
	defer s.mu.Unlock()
	k := objKey(obj)
	ov := s.HB.objs[k]
	if ov == nil {
		ov = vclock{}
		s.HB.objs[k] = ov
	}
	ov.join(g.vc)
	g.epoch++
	g.vc[g] = g.epoch
}

func (s *Sim) hbAccess(g *G, site string, key any, write bool, keep any) {
	if g == nil {
		return
	}
	hb := s.HB
	s.mu.Lock()
	defer s.mu.Unlock()
	hb.Checked++
	vs := hb.vars[key]
	if vs == nil {
		vs = &varState{reads: map[*G]*access{}, keep: keep}
		hb.vars[key] = vs
	}
	ordered := func(a *access) bool { return a.g == g || g.vc[a.g] >= a.epoch }
	report := func(a *access, kind string) {
		msg := fmt.Sprintf("%s: %s at %s (step %d) and %s at %s (step %d) on %v are not ordered by happens-before",
			kind, a.g.ID, a.site, a.step, g.ID, site, s.Step, key)
		hb.Races = append(hb.Races, msg)
	}
	if w := vs.lastWrite; w != nil {
		if w.g != g {
			hb.CrossChecked++
		}
		if !ordered(w) {
			if write {
				report(w, "write/write")
			} else {
				report(w, "write/read")
			}
		}
	}
	me := &access{g: g, epoch: g.epoch, site: site, step: s.Step}
	if write {
		for _, r := range vs.reads {
			if r.g != g {
				hb.CrossChecked++
			}
			if !ordered(r) {
				report(r, "read/write")
			}
		}
		vs.lastWrite = me
		vs.reads = map[*G]*access{}
	} else {
		vs.reads[g] = me
	}
}

// Read reports a read of designated shared state identified by key.
func Read(site string, key any) {
	s := cur
	if s == nil || s.HB == nil {
		return
	}
	s.hbAccess(s.self(), site, objKey(key), false, key)
}

// Write reports a write of designated shared state identified by key.
func Write(site string, key any) {
	s := cur
	if s == nil || s.HB == nil {
		return
	}
	s.hbAccess(s.self(), site, objKey(key), true, key)
}

// ReadElems reports a read of every element of a designated slice (copy,
// append(x, s...)); WriteElems a write of every element.
func ReadElems(site string, slice any) { elems(site, slice, false) }

func WriteElems(site string, slice any) { elems(site, slice, true) }

func elems(site string, slice any, write bool) {
	s := cur
	if s == nil || s.HB == nil {
		return
	}
	v := reflect.ValueOf(slice)
	if v.Kind() != reflect.Slice {
		return
	}
	g := s.self()
	for i := 0; i < v.Len(); i++ {
		p := v.Index(i).Addr().Interface()
		s.hbAccess(g, site, objKey(p), write, p)
	}
}
