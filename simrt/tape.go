package simrt

import (
	"math/rand/v2"
)

// Tape is a recorded stream of bounded integer decisions. In generate mode the
// values come from a PRNG derived from the seed; in replay mode they come from
// the recorded array (an exhausted tape yields 0). Either way every value
// handed out is recorded, so the recording of a replay is a valid tape too.
type Tape struct {
	rng    *rand.Rand
	replay []uint32
	replOn bool
	pos    int
	Rec    []uint32
}

func (t *Tape) Replaying() bool { return t.replOn }

// Draw returns a value in [0, n).
func (t *Tape) Draw(n int) int {
	if n <= 1 {
		return 0
	}
	var v int
	if t.replOn {
		if t.pos < len(t.replay) {
			v = int(t.replay[t.pos] % uint32(n))
		}
		t.pos++
	} else {
		v = t.rng.IntN(n)
	}
	t.Rec = append(t.Rec, uint32(v))
	return v
}

// Put records a value chosen by other means (a scheduling strategy).
func (t *Tape) Put(v int) { t.Rec = append(t.Rec, uint32(v)) }

// Float returns a value in [0,1) with 1/1024 resolution.
func (t *Tape) Float() float64 { return float64(t.Draw(1024)) / 1024 }

// Bool returns true with probability about num/den.
func (t *Tape) Chance(num, den int) bool { return t.Draw(den) < num }

// Range returns a value in [lo, hi].
func (t *Tape) Range(lo, hi int) int {
	if hi <= lo {
		return lo
	}
	return lo + t.Draw(hi-lo+1)
}

// Tapes are the three decision tapes of one run.
type Tapes struct {
	Seed     uint64
	Workload *Tape
	Sched    *Tape
	Faults   *Tape
	srng     *rand.Rand // strategy-internal randomness (generate mode only)
}

func splitmix(x *uint64) uint64 {
	*x += 0x9e3779b97f4a7c15
	z := *x
	z = (z ^ (z >> 30)) * 0xbf58476d1ce4e5b9
	z = (z ^ (z >> 27)) * 0x94d049bb133111eb
	return z ^ (z >> 31)
}

// NewTapes derives the three tapes from one seed.
func NewTapes(seed uint64) *Tapes {
	x := seed
	mk := func() *rand.Rand { return rand.New(rand.NewPCG(splitmix(&x), splitmix(&x))) }
	return &Tapes{
		Seed:     seed,
		Workload: &Tape{rng: mk()},
		Sched:    &Tape{rng: mk()},
		Faults:   &Tape{rng: mk()},
		srng:     mk(),
	}
}

// ReplayTapes builds tapes that replay recorded decisions.
func ReplayTapes(seed uint64, workload, sched, faults []uint32) *Tapes {
	t := NewTapes(seed)
	t.Workload.replay, t.Workload.replOn = workload, true
	t.Sched.replay, t.Sched.replOn = sched, true
	t.Faults.replay, t.Faults.replOn = faults, true
	return t
}

// Strategy picks the next goroutine in generate mode. Whatever it picks is
// written to the schedule tape as an index into the ordered ready set, so
// replay needs no knowledge of the strategy.
type Strategy struct {
	Name     string
	preempt  int // per-mille probability of a preemption (runblock)
	changeAt map[int]bool
}

var StrategyNames = []string{"random", "runblock", "pct", "roundrobin"}

func pickStrategy(t *Tapes) Strategy {
	if t.Sched.Replaying() {
		return Strategy{Name: "replay"}
	}
	r := t.srng
	switch r.IntN(8) {
	case 0, 1, 2:
		return Strategy{Name: "random"}
	case 3, 4:
		return Strategy{Name: "runblock", preempt: []int{0, 5, 20, 100, 300}[r.IntN(5)]}
	case 5, 6:
		d := 1 + r.IntN(3)
		ch := map[int]bool{}
		for i := 0; i < d-1; i++ {
			ch[r.IntN(3000)] = true
		}
		return Strategy{Name: "pct", changeAt: ch}
	default:
		return Strategy{Name: "roundrobin"}
	}
}

// newPrio derives a goroutine's PCT priority from the seed and the
// goroutine's (deterministic) id, not from a shared random stream: goroutines
// can be registered from two threads at once in a wake window, and the order
// of draws from a shared stream would then depend on real timing.
func (st *Strategy) newPrio(s *Sim, id string) float64 {
	if s.Tapes.Sched.Replaying() {
		return 0
	}
	h := s.Tapes.Seed*0x9e3779b97f4a7c15 + 0x632be59bd9b4e019
	for i := 0; i < len(id); i++ {
		h = (h ^ uint64(id[i])) * 1099511628211
	}
	h ^= h >> 29
	h *= 0xbf58476d1ce4e5b9
	h ^= h >> 32
	return 1 + float64(h>>11)/float64(1<<53)
}

func (st *Strategy) pick(s *Sim, ready []*G) int {
	r := s.Tapes.srng
	switch st.Name {
	case "runblock":
		if ready[0] == s.last && r.IntN(1000) >= st.preempt {
			return 0
		}
		return r.IntN(len(ready))
	case "pct":
		if st.changeAt[s.Step] && s.last != nil {
			s.last.prio = r.Float64() * 0.5
		}
		best := 0
		for i, g := range ready {
			if g.prio > ready[best].prio {
				best = i
			}
		}
		return best
	case "roundrobin":
		// least recently run
		best := 0
		for i, g := range ready {
			if g.last < ready[best].last {
				best = i
			}
		}
		return best
	default:
		return r.IntN(len(ready))
	}
}
