package simrt

import (
	"fmt"
	"reflect"
	"sort"
	"sync"
)

// MapKeys returns the keys of m. While a simulation is active they are in a
// deterministic order (Go's map iteration order is randomised, which would be
// an uncontrolled input): numbers and strings in their natural order, other
// keys by a stable identity (see RegisterStable).
func MapKeys[M ~map[K]V, K comparable, V any](m M) []K {
	keys := make([]K, 0, len(m))
	for k := range m {
		keys = append(keys, k)
	}
	if cur == nil || len(keys) < 2 {
		return keys
	}
	sort.SliceStable(keys, func(i, j int) bool { return lessKey(keys[i], keys[j]) })
	return keys
}

var (
	stableMu   sync.Mutex
	stableIDs  = map[any]int{}
	stableNext int
)

// RegisterStable gives obj (a pointer-like value used as a map key somewhere
// in the code under test) a stable identity: its registration order, which
// the caller must make deterministic (e.g. connection creation order).
func RegisterStable(obj any) {
	stableMu.Lock()
	if _, ok := stableIDs[obj]; !ok {
		stableNext++
		stableIDs[obj] = stableNext
	}
	stableMu.Unlock()
}

// ResetStable forgets all registrations (between simulations).
func ResetStable() {
	stableMu.Lock()
	stableIDs = map[any]int{}
	stableNext = 0
	stableMu.Unlock()
}

func stableID(k any) int {
	stableMu.Lock()
	defer stableMu.Unlock()
	id, ok := stableIDs[k]
	if !ok {
		// first sighting here: the order among several unregistered keys of
		// one map is not controlled
		stableNext++
		id = stableNext
		stableIDs[k] = id
		if s := cur; s != nil {
			s.probMu.Lock()
			s.Probes["map-key-without-stable-identity"]++
			s.probMu.Unlock()
		}
	}
	return id
}

func lessKey(a, b any) bool {
	va, vb := reflect.ValueOf(a), reflect.ValueOf(b)
	switch va.Kind() {
	case reflect.String:
		return va.String() < vb.String()
	case reflect.Int, reflect.Int8, reflect.Int16, reflect.Int32, reflect.Int64:
		return va.Int() < vb.Int()
	case reflect.Uint, reflect.Uint8, reflect.Uint16, reflect.Uint32, reflect.Uint64, reflect.Uintptr:
		return va.Uint() < vb.Uint()
	case reflect.Float32, reflect.Float64:
		return va.Float() < vb.Float()
	case reflect.Bool:
		return !va.Bool() && vb.Bool()
	case reflect.Struct, reflect.Array:
		return fmt.Sprintf("%#v", a) < fmt.Sprintf("%#v", b)
	}
	return stableID(a) < stableID(b)
}
