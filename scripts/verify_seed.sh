#!/bin/bash
# usage: verify_seed.sh <agent-worktree> <seed-name> <property> "<packages of existing tests>" <demo-file-relative-dest> "<demo go test args>"
# Confirms, in a fresh scratch worktree, that the seeded patch applies, builds, keeps the existing
# tests passing, and that the demonstration fails with it and passes without it. On success the
# seed is stored under /verif/seeded/<seed-name>/.
set -u
export GOFLAGS=-mod=mod GOPROXY=off GOSUMDB=off
src=$1; name=$2; prop=$3; pkgs=$4; demodest=$5; demoargs=$6
wt=$(mktemp -d /tmp/seedverify-XXXXXX)
git -C /repo worktree add --detach -q "$wt/r" HEAD || exit 2
trap 'git -C /repo worktree remove --force "$wt/r"; rm -rf "$wt"' EXIT
cd "$wt/r"
demo=$(ls "$src"/SEED/*_test.go "$src"/SEED/*.go 2>/dev/null | head -1)
[ -f "$src/SEED/patch.diff" ] || { echo "no patch.diff"; exit 2; }
git apply "$src/SEED/patch.diff" || { echo "SEED $name: patch does not apply"; exit 1; }
if git diff --name-only | grep -q "_test.go"; then echo "SEED $name: patch touches test files"; exit 1; fi
go build ./... || { echo "SEED $name: does not build"; exit 1; }
echo "== existing tests with the patch ($pkgs)"
if ! timeout -s KILL 1500 go test -count=1 $pkgs > "$wt/tests.log" 2>&1; then
  echo "existing tests FAILED with the patch (first run); retrying failed packages once (machine is loaded)"
  failed=$(grep "^FAIL" "$wt/tests.log" | awk '{print $2}' | grep src.elv.sh | sort -u | tr '\n' ' ')
  echo "failed: $failed"
  if [ -z "$failed" ] || ! timeout -s KILL 900 go test -count=1 -p 1 $failed > "$wt/tests2.log" 2>&1; then
    tail -20 "$wt/tests2.log" 2>/dev/null | cut -c1-200; echo "SEED $name: REJECTED (existing tests fail)"; exit 1
  fi
fi
echo "existing tests pass"
cp "$demo" "$demodest"
echo "== demo with the patch (must fail)"
timeout -s KILL 600 go test -count=1 $demoargs > "$wt/demo1.log" 2>&1; rc1=$?
tail -5 "$wt/demo1.log" | cut -c1-200
echo "== demo without the patch (must pass)"
git apply -R "$src/SEED/patch.diff"
timeout -s KILL 600 go test -count=1 $demoargs > "$wt/demo2.log" 2>&1; rc2=$?
tail -3 "$wt/demo2.log" | cut -c1-200
if [ $rc1 -eq 0 ] || [ $rc2 -ne 0 ]; then echo "SEED $name: REJECTED (demo with patch rc=$rc1, without rc=$rc2)"; exit 1; fi
mkdir -p /verif/seeded/$name
cp "$src/SEED/patch.diff" /verif/seeded/$name/patch.diff
cp "$demo" /verif/seeded/$name/
cp "$src/SEED/NOTES.md" /verif/seeded/$name/NOTES.md 2>/dev/null
cat > /verif/seeded/$name/meta.json <<EOF
{
 "property": "$prop",
 "name": "$name",
 "written_by": "independent sub-agent given only the property text and a scratch worktree",
 "verified": "patch applies to /repo HEAD, builds, existing tests ($pkgs) pass with it, demonstration (go test $demoargs; file placed at $demodest) fails with it (rc=$rc1) and passes without it (rc=$rc2)",
 "needs_to_manifest": "see NOTES.md",
 "caught_by": "pending"
}
EOF
echo "SEED $name: ACCEPTED"
