#!/bin/bash
# usage: runseeds.sh <scratch> <prop> <seed0> <n> [tier] [maxshow]  -- dev helper: runs seeds, restarting after violations, prints summary
d=$1; prop=$2; s0=$3; n=$4; tier=${5:-quick}; export MAXSHOW=${6:-4}
end=$((s0+n)); cur=$s0; out=$d/out.jsonl; : > $out
while [ $cur -lt $end ]; do
  VERIF_PROP=$prop VERIF_TIER=$tier VERIF_SEED0=$cur VERIF_NSEEDS=$((end-cur)) VERIF_OUT=$out VERIF_WATCHDOG_S=20 $d/h.test -test.run TestWorker -test.timeout 0 > $d/worker.log 2>&1
  rc=$?
  last=$(tail -1 $out | python3 -c "import sys,json; print(json.loads(sys.stdin.readline())['seed'])")
  cur=$((last+1))
  if [ $rc -ne 3 ] && [ $rc -ne 0 ]; then echo "worker exit $rc"; tail -40 $d/worker.log | cut -c1-300; break; fi
done
python3 - $out <<'PY'
import sys,json,collections,os
n=0;bad=[];steps=0;sigs=set();probes=collections.Counter();strat=collections.Counter();faults=collections.Counter();sub=0;clauses=collections.Counter()
for l in open(sys.argv[1]):
    r=json.loads(l); n+=1; steps+=r['steps']; sigs.add(r['sig']); strat[r['strategy']]+=1; sub+=r.get('sub',0)
    for k,v in (r.get('probes') or {}).items(): probes[k]+=v
    for k,v in (r.get('faults') or {}).items(): faults[k]+=v
    if not r['ok']: bad.append(r); clauses[r['class']+'/'+str(r.get('clause'))]+=1
print("runs",n,"sub",sub,"steps",steps,"distinct sigs",len(sigs),"violations",len(bad),dict(clauses)); print("probes",dict(probes)); print("faults",dict(faults)); print(dict(strat))
seen=set()
for r in bad:
    key=r['class']+'/'+str(r.get('clause'))
    if key in seen and len(seen)>1: continue
    if len(seen)>=int(os.environ.get('MAXSHOW','4')): break
    seen.add(key)
    print("SEED",r['seed'],r['class'],r.get('clause'),r['detail'][:500]); print("   ",json.dumps(r.get('case'))[:500])
PY
