#!/bin/bash
# usage: runseeds.sh <scratch> <prop> <seed0> <n> [tier]  -- dev helper: runs seeds, restarting after violations, prints summary
d=$1; prop=$2; s0=$3; n=$4; tier=${5:-quick}
end=$((s0+n)); cur=$s0; out=$d/out.jsonl; : > $out
while [ $cur -lt $end ]; do
  VERIF_PROP=$prop VERIF_TIER=$tier VERIF_SEED0=$cur VERIF_NSEEDS=$((end-cur)) VERIF_OUT=$out $d/h.test -test.run TestWorker -test.timeout 0 > $d/worker.log 2>&1
  rc=$?
  last=$(tail -1 $out | python3 -c "import sys,json; print(json.loads(sys.stdin.readline())['seed'])")
  cur=$((last+1))
  if [ $rc -ne 3 ] && [ $rc -ne 0 ]; then echo "worker exit $rc"; tail -30 $d/worker.log; break; fi
done
python3 - $out <<'PY'
import sys,json,collections
n=0;bad=[];steps=0;sigs=set();probes=collections.Counter();strat=collections.Counter()
for l in open(sys.argv[1]):
    r=json.loads(l); n+=1; steps+=r['steps']; sigs.add(r['sig']); strat[r['strategy']]+=1
    for k,v in (r.get('probes') or {}).items(): probes[k]+=v
    if not r['ok']: bad.append(r)
print("runs",n,"steps",steps,"distinct sigs",len(sigs),"violations",len(bad)); print(dict(probes)); print(dict(strat))
for r in bad[:12]:
    print("SEED",r['seed'],r['class'],r.get('clause'),r['detail'][:600]); print("   ",json.dumps(r.get('case'))[:700])
PY
