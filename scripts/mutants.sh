#!/bin/bash
# usage: mutants.sh [pattern]   -- applies each /verif/mutants/<ID>-*.diff (and /verif/seeded/*/patch.diff)
# to a scratch worktree of /repo and runs the quick check of property <ID> against it (VERIF_REPO).
# Expected: exit 1 (caught). /repo itself is never touched.
pat=${1:-}
cd /verif
wt=$(mktemp -d /tmp/verif-mut-XXXXXX)
git -C /repo worktree add --detach -q "$wt/repo" HEAD || exit 2
trap 'git -C /repo worktree remove --force "$wt/repo"; rm -rf "$wt"' EXIT
run_one() {
  local id=$1 patch=$2 name=$3
  git -C "$wt/repo" checkout -q -- . && git -C "$wt/repo" clean -fdq
  if ! git -C "$wt/repo" apply "$patch"; then echo "MUTANT $name: patch does not apply"; return; fi
  local t0=$(date +%s)
  VERIF_REPO="$wt/repo" ./bin/verif check "$id" --tier quick > "$wt/out.txt" 2>&1
  local rc=$?
  local t1=$(date +%s)
  local what=$(grep -m1 '^violation:' "$wt/out.txt" | cut -c1-160)
  case $rc in
    1) echo "MUTANT $name: CAUGHT by $id in $((t1-t0))s  $what" ;;
    0) echo "MUTANT $name: MISSED by $id ($((t1-t0))s)" ;;
    *) echo "MUTANT $name: INFRA rc=$rc"; tail -5 "$wt/out.txt" | cut -c1-300 ;;
  esac
}
for p in mutants/*.diff; do
  name=$(basename "$p" .diff); id=${name%%-*}
  [[ -n "$pat" && "$name" != *$pat* ]] && continue
  run_one "$id" "/verif/$p" "$name"
done
for d in seeded/*/; do
  [ -f "$d/patch.diff" ] || continue
  name=$(basename "$d"); id=$(python3 -c "import json;print(json.load(open('$d/meta.json'))['property'])")
  [[ -n "$pat" && "$name" != *$pat* ]] && continue
  run_one "$id" "/verif/$d/patch.diff" "seeded/$name"
done
# restore evidence written by mutant runs
git -C /verif checkout -q -- evidence 2>/dev/null
rm -f /verif/replays/*.json
