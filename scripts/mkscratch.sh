#!/bin/bash
# usage: mkscratch.sh <dir> [rewrite-flags] <pkg>...   (development helper; the driver does the same in Go)
set -e
export GOFLAGS=-mod=mod GOPROXY=off GOSUMDB=off GOTOOLCHAIN=local
d=$1; shift
rm -rf "$d"; mkdir -p "$d"
rsync -a --exclude .git --exclude website /repo/ "$d/repo/"
mkdir -p "$d/repo/zzverif/simrt" "$d/repo/zzverif/h"
cp /verif/simrt/*.go "$d/repo/zzverif/simrt/"
cp /verif/harness/*.go "$d/repo/zzverif/h/"
printf '\ngodebug asynctimerchan=0\n' >> "$d/repo/go.mod"
/verif/bin/simrewrite -root "$d/repo" "$@" src.elv.sh/zzverif/h
