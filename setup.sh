#!/bin/bash
# Builds the verification tools from /verif sources, offline.
set -e
cd "$(dirname "$0")"
export GOFLAGS=-mod=mod GOPROXY=off GOSUMDB=off GOTOOLCHAIN=local CGO_ENABLED=0
mkdir -p bin evidence replays
go1.26.8 build -o bin/simrewrite ./cmd/simrewrite
go1.26.8 build -o bin/verif ./cmd/verif
echo "setup ok"
