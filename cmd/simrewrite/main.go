// simrewrite instruments Go packages of a scratch copy of elves/elvish for the
// simrt deterministic scheduler. It is a general source-to-source rewriter:
// every go statement, channel operation, select, sync / atomic / semaphore
// call and *os.File I/O use in the listed packages is rewritten by kind, never
// by line, so an edited tree is instrumented the same way.
//
// usage: simrewrite -root <scratch repo root> [-hb spec] <import path>...
//
// Exit status 2 on any construct it cannot handle.
package main

import (
	"bytes"
	"encoding/json"
	"flag"
	"fmt"
	"go/ast"
	"go/format"
	"go/importer"
	"go/parser"
	"go/token"
	"go/types"
	"io"
	"os"
	"os/exec"
	"path/filepath"
	"sort"
	"strconv"
	"strings"

	"golang.org/x/tools/go/ast/astutil"
)

const simPkgPath = "src.elv.sh/zzverif/simrt"

type listPkg struct {
	Dir        string
	ImportPath string
	Export     string
	GoFiles    []string
	Standard   bool
	DepOnly    bool
	Error      *struct{ Err string }
}

var (
	root     = flag.String("root", "", "root of the scratch copy (module src.elv.sh)")
	hbSpec   = flag.String("hb", "", "comma separated designated state: pkgpath.Type.field or maptype:<type string>")
	verbose  = flag.Bool("v", false, "verbose")
	replSpec = flag.String("replace", "", "semicolon separated: pkgpath:from=To,from=To (from: pkg.Func or pkg.Type.Method; To: function of simrt)")

	replaceTable = map[string]map[string]string{}
	yieldSpec    = flag.String("yield", "", "comma separated pkgpath.Type.Method: put a scheduling point before calls of these methods")
	yieldMethods = map[string]bool{}
	warnings int
	counts   = map[string]int{}
)

func fatalf(format string, args ...any) {
	fmt.Fprintf(os.Stderr, "simrewrite: "+format+"\n", args...)
	os.Exit(2)
}

func main() {
	flag.Parse()
	if *root == "" || flag.NArg() == 0 {
		fatalf("usage: simrewrite -root DIR pkg...")
	}
	targets := flag.Args()
	// Load export data for all dependencies (built from the unmodified scratch copy).
	args := append([]string{"list", "-e", "-export", "-deps", "-json=Dir,ImportPath,Export,GoFiles,Standard,DepOnly,Error", "-tags", "verif"}, targets...)
	cmd := exec.Command(goBin(), args...)
	cmd.Dir = *root
	cmd.Stderr = os.Stderr
	out, err := cmd.Output()
	if err != nil {
		fatalf("go list failed: %v", err)
	}
	pkgs := map[string]*listPkg{}
	dec := json.NewDecoder(bytes.NewReader(out))
	for dec.More() {
		var p listPkg
		if err := dec.Decode(&p); err != nil {
			fatalf("decoding go list output: %v", err)
		}
		pp := p
		pkgs[p.ImportPath] = &pp
	}
	fset := token.NewFileSet()
	imp := importer.ForCompiler(fset, "gc", func(path string) (io.ReadCloser, error) {
		p := pkgs[path]
		if p == nil || p.Export == "" {
			return nil, fmt.Errorf("no export data for %q", path)
		}
		return os.Open(p.Export)
	})
	parseHB()
	for _, y := range strings.Split(*yieldSpec, ",") {
		if y = strings.TrimSpace(y); y != "" {
			yieldMethods[y] = true
		}
	}
	for _, part := range strings.Split(*replSpec, ";") {
		part = strings.TrimSpace(part)
		if part == "" {
			continue
		}
		i := strings.Index(part, ":")
		if i < 0 {
			fatalf("bad -replace entry %q", part)
		}
		tbl := map[string]string{}
		for _, kv := range strings.Split(part[i+1:], ",") {
			j := strings.Index(kv, "=")
			if j < 0 {
				fatalf("bad -replace entry %q", kv)
			}
			tbl[strings.TrimSpace(kv[:j])] = strings.TrimSpace(kv[j+1:])
		}
		replaceTable[part[:i]] = tbl
	}
	for _, t := range targets {
		p := pkgs[t]
		if p == nil {
			fatalf("package %s not found", t)
		}
		if p.Error != nil {
			fatalf("package %s: %s", t, p.Error.Err)
		}
		rewritePackage(fset, imp, p)
	}
	keys := make([]string, 0, len(counts))
	for k := range counts {
		keys = append(keys, k)
	}
	sort.Strings(keys)
	var sb strings.Builder
	for _, k := range keys {
		fmt.Fprintf(&sb, " %s=%d", k, counts[k])
	}
	fmt.Printf("simrewrite: %d packages;%s; warnings=%d\n", len(targets), sb.String(), warnings)
}

func goBin() string {
	if g := os.Getenv("VERIF_GO"); g != "" {
		return g
	}
	return "go1.26.8"
}

type hbField struct{ pkg, typ, field string }

var (
	hbFields   []hbField
	hbElems    []hbField // slice-typed fields whose ELEMENTS are designated
	hbMapTypes []string
	// local variables that a function literal captures and that are assigned
	// after their declaration (the shared variables of goroutine closures)
	hbCaptured bool
)

func parseHB() {
	if *hbSpec == "" {
		return
	}
	for _, s := range strings.Split(*hbSpec, ",") {
		s = strings.TrimSpace(s)
		if s == "" {
			continue
		}
		if strings.HasPrefix(s, "maptype:") {
			hbMapTypes = append(hbMapTypes, strings.TrimPrefix(s, "maptype:"))
			continue
		}
		if s == "captured" {
			hbCaptured = true
			continue
		}
		elems := strings.HasPrefix(s, "elems:")
		s = strings.TrimPrefix(s, "elems:")
		// pkgpath.Type.field
		i := strings.LastIndex(s, ".")
		j := strings.LastIndex(s[:i], ".")
		if elems {
			hbElems = append(hbElems, hbField{s[:j], s[j+1 : i], s[i+1:]})
			continue
		}
		hbFields = append(hbFields, hbField{s[:j], s[j+1 : i], s[i+1:]})
	}
}

type rewriter struct {
	fset    *token.FileSet
	info    *types.Info
	pkg     *types.Package
	relFile string
	tmpN    int
	used    bool // simrt import needed
	skip    map[ast.Node]bool
	funcs   []*types.Signature // enclosing function signatures
	err     error
	// shared local variables of this file (see findSharedVars)
	shared map[*types.Var]bool
}

func rewritePackage(fset *token.FileSet, imp types.Importer, p *listPkg) {
	var files []*ast.File
	var names []string
	for _, f := range p.GoFiles {
		if strings.HasPrefix(f, "zz_verif") {
			continue
		}
		path := filepath.Join(p.Dir, f)
		af, err := parser.ParseFile(fset, path, nil, parser.ParseComments|parser.SkipObjectResolution)
		if err != nil {
			fatalf("parse %s: %v", path, err)
		}
		files = append(files, af)
		names = append(names, path)
	}
	info := &types.Info{
		Types:      map[ast.Expr]types.TypeAndValue{},
		Selections: map[*ast.SelectorExpr]*types.Selection{},
		Uses:       map[*ast.Ident]types.Object{},
		Defs:       map[*ast.Ident]types.Object{},
		Implicits:  map[ast.Node]types.Object{},
	}
	conf := types.Config{Importer: imp, Error: func(err error) {
		fatalf("type-check %s: %v", p.ImportPath, err)
	}}
	tpkg, err := conf.Check(p.ImportPath, fset, files, info)
	if err != nil {
		fatalf("type-check %s: %v", p.ImportPath, err)
	}
	for i, af := range files {
		if strings.HasSuffix(names[i], "_raw.go") {
			continue
		}
		rel, _ := filepath.Rel(*root, names[i])
		rw := &rewriter{fset: fset, info: info, pkg: tpkg, relFile: rel, skip: map[ast.Node]bool{}}
		rw.file(af)
		if !rw.used {
			continue
		}
		keepDirectiveComments(af)
		if !importsPath(af, simPkgPath) {
			astutil.AddNamedImport(fset, af, "simrt", simPkgPath)
		}
		removeUnusedImports(fset, af)
		var buf bytes.Buffer
		if err := format.Node(&buf, fset, af); err != nil {
			fatalf("print %s: %v", names[i], err)
		}
		if _, err := parser.ParseFile(token.NewFileSet(), names[i], buf.Bytes(), 0); err != nil {
			os.WriteFile(names[i]+".broken", buf.Bytes(), 0o644)
			fatalf("rewritten %s does not parse: %v", names[i], err)
		}
		if err := os.WriteFile(names[i], buf.Bytes(), 0o644); err != nil {
			fatalf("write %s: %v", names[i], err)
		}
	}
}

// keepDirectiveComments drops every comment except compiler directives and
// the comments before the package clause: go/printer can otherwise attach old
// comments to new nodes in ways that change the meaning of the program.
func keepDirectiveComments(f *ast.File) {
	var keep []*ast.CommentGroup
	for _, cg := range f.Comments {
		if cg.End() < f.Package {
			keep = append(keep, cg)
			continue
		}
		var lines []*ast.Comment
		for _, c := range cg.List {
			if strings.HasPrefix(c.Text, "//go:") || strings.HasPrefix(c.Text, "//line ") {
				lines = append(lines, c)
			}
		}
		if len(lines) > 0 {
			keep = append(keep, &ast.CommentGroup{List: lines})
		}
	}
	f.Comments = keep
	ast.Inspect(f, func(n ast.Node) bool {
		switch n := n.(type) {
		case *ast.FuncDecl:
			n.Doc = directiveOnly(n.Doc)
		case *ast.GenDecl:
			n.Doc = directiveOnly(n.Doc)
		case *ast.Field:
			n.Doc, n.Comment = nil, nil
		case *ast.ValueSpec:
			n.Doc, n.Comment = directiveOnly(n.Doc), nil
		case *ast.TypeSpec:
			n.Doc, n.Comment = nil, nil
		case *ast.ImportSpec:
			n.Doc, n.Comment = nil, nil
		}
		return true
	})
}

func directiveOnly(cg *ast.CommentGroup) *ast.CommentGroup {
	if cg == nil {
		return nil
	}
	var lines []*ast.Comment
	for _, c := range cg.List {
		if strings.HasPrefix(c.Text, "//go:") {
			lines = append(lines, c)
		}
	}
	if len(lines) == 0 {
		return nil
	}
	return &ast.CommentGroup{List: lines}
}

func removeUnusedImports(fset *token.FileSet, f *ast.File) {
	usedNames := map[string]bool{}
	ast.Inspect(f, func(n ast.Node) bool {
		if se, ok := n.(*ast.SelectorExpr); ok {
			if id, ok := se.X.(*ast.Ident); ok {
				usedNames[id.Name] = true
			}
		}
		return true
	})
	for _, is := range append([]*ast.ImportSpec(nil), f.Imports...) {
		if is == nil || is.Path == nil {
			continue
		}
		path, _ := strconv.Unquote(is.Path.Value)
		name := ""
		if is.Name != nil {
			name = is.Name.Name
			if name == "_" || name == "." {
				continue
			}
		} else {
			name = path[strings.LastIndex(path, "/")+1:]
			// conventional vN / go- prefixes are not used by the std packages we may drop
		}
		if !usedNames[name] && isStd(path) {
			if is.Name != nil {
				astutil.DeleteNamedImport(fset, f, is.Name.Name, path)
			} else {
				astutil.DeleteImport(fset, f, path)
			}
		}
	}
}

func importsPath(f *ast.File, path string) bool {
	for _, is := range f.Imports {
		if p, _ := strconv.Unquote(is.Path.Value); p == path {
			return true
		}
	}
	return false
}

func isStd(path string) bool { return !strings.Contains(strings.SplitN(path, "/", 2)[0], ".") }

func (rw *rewriter) site(n ast.Node, kind string) *ast.BasicLit {
	pos := rw.fset.Position(n.Pos())
	return &ast.BasicLit{Kind: token.STRING, Value: strconv.Quote(fmt.Sprintf("%s:%d:%s", rw.relFile, pos.Line, kind))}
}

func (rw *rewriter) tmp(prefix string) *ast.Ident {
	rw.tmpN++
	return ast.NewIdent(fmt.Sprintf("_vs%s%d", prefix, rw.tmpN))
}

func simCall(name string, args ...ast.Expr) *ast.CallExpr {
	return &ast.CallExpr{Fun: &ast.SelectorExpr{X: ast.NewIdent("simrt"), Sel: ast.NewIdent(name)}, Args: args}
}

func exprStmt(e ast.Expr) ast.Stmt { return &ast.ExprStmt{X: e} }

func define(lhs []ast.Expr, rhs ...ast.Expr) ast.Stmt {
	return &ast.AssignStmt{Lhs: lhs, Tok: token.DEFINE, Rhs: rhs}
}

func assign(lhs []ast.Expr, rhs ...ast.Expr) ast.Stmt {
	return &ast.AssignStmt{Lhs: lhs, Tok: token.ASSIGN, Rhs: rhs}
}

func intLit(i int) ast.Expr { return &ast.BasicLit{Kind: token.INT, Value: strconv.Itoa(i)} }

func (rw *rewriter) typeOf(e ast.Expr) types.Type {
	if tv, ok := rw.info.Types[e]; ok {
		return tv.Type
	}
	if id, ok := e.(*ast.Ident); ok {
		if o := rw.info.Uses[id]; o != nil {
			return o.Type()
		}
		if o := rw.info.Defs[id]; o != nil {
			return o.Type()
		}
	}
	return nil
}

// isConstOrNil reports whether e must be kept inline rather than stored in a
// temporary (untyped constants and nil would change type).
func (rw *rewriter) isConstOrNil(e ast.Expr) bool {
	tv, ok := rw.info.Types[e]
	if !ok {
		return false
	}
	return tv.Value != nil || tv.IsNil()
}

func isChan(t types.Type) bool {
	if t == nil {
		return false
	}
	_, ok := t.Underlying().(*types.Chan)
	return ok
}

func isNamed(t types.Type, pkg, name string) bool {
	if t == nil {
		return false
	}
	if p, ok := t.(*types.Pointer); ok {
		t = p.Elem()
	}
	t = types.Unalias(t)
	n, ok := t.(*types.Named)
	if !ok {
		return false
	}
	o := n.Obj()
	return o.Pkg() != nil && o.Pkg().Path() == pkg && o.Name() == name
}

// isSyncType reports whether t (or what it points to) is declared in sync,
// sync/atomic, context or golang.org/x/sync/semaphore, or is a channel.
func isSyncType(t types.Type) bool {
	if t == nil {
		return false
	}
	t = types.Unalias(t)
	if _, ok := t.Underlying().(*types.Chan); ok {
		return false // the channel VALUE stored in a field is plain memory
	}
	if p, ok := t.(*types.Pointer); ok {
		_ = p
		return false // a pointer field is plain memory, whatever it points to
	}
	if n, ok := t.(*types.Named); ok && n.Obj().Pkg() != nil {
		switch n.Obj().Pkg().Path() {
		case "sync", "sync/atomic":
			return true
		}
	}
	return false
}

func isOSFilePtr(t types.Type) bool {
	if t == nil {
		return false
	}
	p, ok := types.Unalias(t).(*types.Pointer)
	return ok && isNamed(p.Elem(), "os", "File")
}

func isMethodIface(t types.Type) bool {
	if t == nil {
		return false
	}
	if _, ok := types.Unalias(t).(*types.TypeParam); ok {
		return false
	}
	i, ok := t.Underlying().(*types.Interface)
	return ok && i.NumMethods() > 0
}

func (rw *rewriter) wrapFile(e ast.Expr) ast.Expr {
	rw.used = true
	counts["filewrap"]++
	return simCall("File", e)
}

func (rw *rewriter) maybeWrap(e ast.Expr, target types.Type) ast.Expr {
	if isOSFilePtr(rw.typeOf(e)) && isMethodIface(target) {
		return rw.wrapFile(e)
	}
	return e
}

// simpleExpr reports whether e can be evaluated twice without side effects.
func simpleExpr(e ast.Expr) bool {
	switch e := e.(type) {
	case *ast.Ident:
		return true
	case *ast.SelectorExpr:
		return simpleExpr(e.X)
	case *ast.StarExpr:
		return simpleExpr(e.X)
	case *ast.ParenExpr:
		return simpleExpr(e.X)
	case *ast.UnaryExpr:
		return e.Op == token.AND && simpleExpr(e.X)
	case *ast.IndexExpr:
		return simpleExpr(e.X) && simpleExpr(e.Index)
	case *ast.BasicLit:
		return true
	}
	return false
}

func (rw *rewriter) addrOf(e ast.Expr) ast.Expr {
	t := rw.typeOf(e)
	if t != nil {
		if _, ok := t.Underlying().(*types.Pointer); ok {
			return e
		}
	}
	return &ast.UnaryExpr{Op: token.AND, X: e}
}

func (rw *rewriter) objOf(e ast.Expr) ast.Expr {
	if e == nil || !simpleExpr(e) {
		return ast.NewIdent("nil")
	}
	return rw.addrOf(e)
}

func (rw *rewriter) file(f *ast.File) {
	if hbCaptured && !strings.HasSuffix(rw.pkg.Path(), "/zzverif/h") {
		rw.findSharedVars(f)
	}
	astutil.Apply(f, rw.pre, rw.post)
}

// findSharedVars collects the local variables (and parameters) of f's
// functions that are (a) used inside a function literal that does not contain
// their declaration and (b) assigned somewhere after their declaration.
// These are the variables goroutine closures share with their creator; every
// access to them is reported to the happens-before monitor. Variables that
// are synchronisation objects themselves are left out.
func (rw *rewriter) findSharedVars(f *ast.File) {
	captured := map[*types.Var]bool{}
	written := map[*types.Var]bool{}
	var lits []*ast.FuncLit
	localVar := func(id *ast.Ident) *types.Var {
		v, ok := rw.info.Uses[id].(*types.Var)
		if !ok || v.IsField() || v.Pkg() != rw.pkg || v.Parent() == nil || v.Parent() == rw.pkg.Scope() {
			return nil
		}
		return v
	}
	markWrite := func(e ast.Expr) {
		if id, ok := ast.Unparen(e).(*ast.Ident); ok {
			if v := localVar(id); v != nil {
				written[v] = true
			}
		}
	}
	var walk func(n ast.Node) bool
	walk = func(n ast.Node) bool {
		switch n := n.(type) {
		case *ast.FuncLit:
			lits = append(lits, n)
			ast.Inspect(n.Body, walk)
			lits = lits[:len(lits)-1]
			return false
		case *ast.Ident:
			if v := localVar(n); v != nil && len(lits) > 0 {
				in := lits[len(lits)-1]
				if v.Pos() < in.Pos() || v.Pos() > in.End() {
					captured[v] = true
				}
			}
		case *ast.AssignStmt:
			if n.Tok != token.DEFINE {
				for _, l := range n.Lhs {
					markWrite(l)
				}
			} else {
				for _, l := range n.Lhs {
					// x, err := f() re-assigns an existing err
					if id, ok := l.(*ast.Ident); ok && rw.info.Defs[id] == nil {
						markWrite(l)
					}
				}
			}
		case *ast.IncDecStmt:
			markWrite(n.X)
		case *ast.RangeStmt:
			if n.Tok == token.ASSIGN {
				if n.Key != nil {
					markWrite(n.Key)
				}
				if n.Value != nil {
					markWrite(n.Value)
				}
			}
		case *ast.UnaryExpr:
			if n.Op == token.AND {
				// address taken: written through the pointer, as far as we know
				markWrite(n.X)
			}
		}
		return true
	}
	ast.Inspect(f, walk)
	rw.shared = map[*types.Var]bool{}
	for v := range captured {
		if written[v] && !isSyncType(v.Type()) {
			rw.shared[v] = true
		}
	}
}

func (rw *rewriter) pre(c *astutil.Cursor) bool {
	n := c.Node()
	switch n := n.(type) {
	case *ast.FuncDecl:
		if o, ok := rw.info.Defs[n.Name].(*types.Func); ok {
			rw.funcs = append(rw.funcs, o.Type().(*types.Signature))
		} else {
			rw.funcs = append(rw.funcs, nil)
		}
	case *ast.FuncLit:
		sig, _ := rw.typeOf(n).(*types.Signature)
		rw.funcs = append(rw.funcs, sig)
	case *ast.SelectStmt:
		for _, cl := range n.Body.List {
			cc := cl.(*ast.CommClause)
			if cc.Comm == nil {
				continue
			}
			rw.skip[cc.Comm] = true
			switch s := cc.Comm.(type) {
			case *ast.ExprStmt:
				rw.skip[ast.Unparen(s.X)] = true
			case *ast.AssignStmt:
				rw.skip[ast.Unparen(s.Rhs[0])] = true
			}
		}
	case *ast.CallExpr:
		rw.wrapCallArgs(n)
	case *ast.AssignStmt:
		if n.Tok == token.ASSIGN && len(n.Lhs) == len(n.Rhs) {
			for i := range n.Rhs {
				n.Rhs[i] = rw.maybeWrap(n.Rhs[i], rw.typeOf(n.Lhs[i]))
			}
		}
	case *ast.ValueSpec:
		if n.Type != nil {
			t := rw.typeOf(n.Type)
			for i := range n.Values {
				n.Values[i] = rw.maybeWrap(n.Values[i], t)
			}
		}
	case *ast.ReturnStmt:
		if len(rw.funcs) > 0 {
			sig := rw.funcs[len(rw.funcs)-1]
			if sig != nil && sig.Results().Len() == len(n.Results) {
				for i := range n.Results {
					n.Results[i] = rw.maybeWrap(n.Results[i], sig.Results().At(i).Type())
				}
			}
		}
	case *ast.CompositeLit:
		rw.wrapCompositeLit(n)
	}
	return true
}

func (rw *rewriter) wrapCallArgs(call *ast.CallExpr) {
	tv, ok := rw.info.Types[call.Fun]
	if !ok {
		return
	}
	if tv.IsBuiltin() {
		return
	}
	if tv.IsType() {
		if len(call.Args) == 1 {
			call.Args[0] = rw.maybeWrap(call.Args[0], tv.Type)
		}
		return
	}
	sig, ok := tv.Type.Underlying().(*types.Signature)
	if !ok {
		return
	}
	np := sig.Params().Len()
	for i := range call.Args {
		var pt types.Type
		switch {
		case sig.Variadic() && i >= np-1:
			if call.Ellipsis.IsValid() {
				continue
			}
			pt = sig.Params().At(np - 1).Type().(*types.Slice).Elem()
		case i < np:
			pt = sig.Params().At(i).Type()
		default:
			continue
		}
		call.Args[i] = rw.maybeWrap(call.Args[i], pt)
	}
}

func (rw *rewriter) wrapCompositeLit(lit *ast.CompositeLit) {
	t := rw.typeOf(lit)
	if t == nil {
		return
	}
	if p, ok := t.Underlying().(*types.Pointer); ok {
		t = p.Elem()
	}
	switch u := t.Underlying().(type) {
	case *types.Struct:
		for i, el := range lit.Elts {
			if kv, ok := el.(*ast.KeyValueExpr); ok {
				if id, ok := kv.Key.(*ast.Ident); ok {
					for j := 0; j < u.NumFields(); j++ {
						if u.Field(j).Name() == id.Name {
							kv.Value = rw.maybeWrap(kv.Value, u.Field(j).Type())
						}
					}
				}
			} else if i < u.NumFields() {
				lit.Elts[i] = rw.maybeWrap(el, u.Field(i).Type())
			}
		}
	case *types.Slice:
		rw.wrapElts(lit, u.Elem())
	case *types.Array:
		rw.wrapElts(lit, u.Elem())
	case *types.Map:
		rw.wrapElts(lit, u.Elem())
	}
}

func (rw *rewriter) wrapElts(lit *ast.CompositeLit, elem types.Type) {
	for i, el := range lit.Elts {
		if kv, ok := el.(*ast.KeyValueExpr); ok {
			kv.Value = rw.maybeWrap(kv.Value, elem)
		} else {
			lit.Elts[i] = rw.maybeWrap(el, elem)
		}
	}
}

func (rw *rewriter) post(c *astutil.Cursor) bool {
	n := c.Node()
	switch n := n.(type) {
	case *ast.FuncDecl, *ast.FuncLit:
		rw.funcs = rw.funcs[:len(rw.funcs)-1]
	case *ast.GoStmt:
		c.Replace(rw.goStmt(n))
	case *ast.SendStmt:
		if rw.skip[n] {
			return true
		}
		rw.needStmtList(c, n)
		c.Replace(rw.sendStmt(n))
	case *ast.UnaryExpr:
		if n.Op == token.ARROW && !rw.skip[n] {
			rw.recvExpr(c, n)
		}
	case *ast.RangeStmt:
		if isChan(rw.typeOf(n.X)) {
			c.Replace(rw.rangeChan(n))
		} else if t := rw.typeOf(n.X); t != nil {
			if _, ok := t.Underlying().(*types.Map); ok {
				rw.rangeMap(n)
			}
		}
	case *ast.SelectStmt:
		if len(n.Body.List) > 0 {
			c.Replace(rw.selectStmt(n))
		}
	case *ast.CallExpr:
		rw.callExpr(c, n)
	}
	rw.hbPost(c)
	return true
}

// needStmtList makes sure n sits in a statement list (block, case or comm
// clause body, labeled statement), not in an if/for/switch header.
func (rw *rewriter) needStmtList(c *astutil.Cursor, n ast.Node) {
	switch c.Parent().(type) {
	case *ast.BlockStmt, *ast.CaseClause, *ast.CommClause, *ast.LabeledStmt:
		return
	}
	pos := rw.fset.Position(n.Pos())
	fatalf("%s: unsupported position of a statement that must be rewritten into a block (parent %T)", pos, c.Parent())
}

func (rw *rewriter) goStmt(n *ast.GoStmt) ast.Stmt {
	rw.used = true
	counts["go"]++
	call := n.Call
	site := rw.site(n, "go")
	if fl, ok := call.Fun.(*ast.FuncLit); ok && len(call.Args) == 0 {
		return exprStmt(simCall("Go", site, fl))
	}
	var stmts []ast.Stmt
	newCall := &ast.CallExpr{Fun: call.Fun, Ellipsis: call.Ellipsis}
	if tv, ok := rw.info.Types[call.Fun]; ok && !tv.IsBuiltin() && !tv.IsType() {
		// Evaluate the function value (binding a method value evaluates its receiver).
		f := rw.tmp("f")
		stmts = append(stmts, define([]ast.Expr{f}, call.Fun))
		newCall.Fun = f
	}
	for _, a := range call.Args {
		if rw.isConstOrNil(a) {
			newCall.Args = append(newCall.Args, a)
			continue
		}
		t := rw.tmp("a")
		stmts = append(stmts, define([]ast.Expr{t}, a))
		newCall.Args = append(newCall.Args, t)
	}
	if newCall.Ellipsis.IsValid() {
		newCall.Ellipsis = token.Pos(1)
	}
	fl := &ast.FuncLit{Type: &ast.FuncType{Params: &ast.FieldList{}}, Body: &ast.BlockStmt{List: []ast.Stmt{exprStmt(newCall)}}}
	stmts = append(stmts, exprStmt(simCall("Go", site, fl)))
	return &ast.BlockStmt{List: stmts}
}

func (rw *rewriter) sendStmt(n *ast.SendStmt) ast.Stmt {
	rw.used = true
	counts["send"]++
	site := rw.site(n, "send")
	ch := rw.tmp("c")
	stmts := []ast.Stmt{define([]ast.Expr{ch}, n.Chan)}
	var val ast.Expr = n.Value
	if !rw.isConstOrNil(n.Value) {
		v := rw.tmp("v")
		stmts = append(stmts, define([]ast.Expr{v}, n.Value))
		val = v
	}
	stmts = append(stmts,
		exprStmt(simCall("Pre", site, ch)),
		exprStmt(simCall("Sync", ch)),
		&ast.SelectStmt{Body: &ast.BlockStmt{List: []ast.Stmt{
			&ast.CommClause{Comm: &ast.SendStmt{Chan: ch, Value: val}},
			&ast.CommClause{Body: []ast.Stmt{
				exprStmt(simCall("Block", site)),
				&ast.SendStmt{Chan: ch, Value: val},
				exprStmt(simCall("Wake", site)),
			}},
		}}},
	)
	return &ast.BlockStmt{List: stmts}
}

func (rw *rewriter) recvExpr(c *astutil.Cursor, n *ast.UnaryExpr) {
	rw.used = true
	counts["recv"]++
	site := rw.site(n, "recv")
	// v, ok := <-ch / v, ok = <-ch / var v, ok = <-ch
	two := false
	switch p := c.Parent().(type) {
	case *ast.AssignStmt:
		two = len(p.Lhs) == 2 && len(p.Rhs) == 1
	case *ast.ValueSpec:
		two = len(p.Names) == 2 && len(p.Values) == 1
	}
	if two {
		c.Replace(simCall("Recv2", site, n.X))
	} else {
		c.Replace(simCall("Recv", site, n.X))
	}
}

func (rw *rewriter) rangeChan(n *ast.RangeStmt) ast.Stmt {
	rw.used = true
	counts["rangechan"]++
	site := rw.site(n, "range")
	ch := rw.tmp("c")
	ok := rw.tmp("ok")
	var head []ast.Stmt
	recv := simCall("Recv2", site, ch)
	switch {
	case n.Key == nil || isBlank(n.Key):
		head = append(head, define([]ast.Expr{ast.NewIdent("_"), ok}, recv))
	case n.Tok == token.DEFINE:
		head = append(head, define([]ast.Expr{n.Key, ok}, recv))
		head = append(head, assign([]ast.Expr{ast.NewIdent("_")}, n.Key))
	default:
		v := rw.tmp("v")
		head = append(head, define([]ast.Expr{v, ok}, recv))
		head = append(head, &ast.IfStmt{Cond: ok, Body: &ast.BlockStmt{List: []ast.Stmt{assign([]ast.Expr{n.Key}, v)}}})
	}
	head = append(head, &ast.IfStmt{Cond: &ast.UnaryExpr{Op: token.NOT, X: ok}, Body: &ast.BlockStmt{List: []ast.Stmt{&ast.BranchStmt{Tok: token.BREAK}}}})
	body := &ast.BlockStmt{List: append(head, n.Body.List...)}
	return &ast.ForStmt{Init: define([]ast.Expr{ch}, n.X), Body: body}
}

// rangeMap removes Go's randomised map iteration order from the set of
// uncontrolled inputs: `for k, v := range m { body }` iterates over
// simrt.MapKeys(m) (keys in a deterministic order while a simulation is
// active) and looks each value up, skipping keys deleted meanwhile. Every order
// it produces is one the runtime could produce.
func (rw *rewriter) rangeMap(n *ast.RangeStmt) {
	rw.used = true
	counts["rangemap"]++
	m := rw.tmp("m")
	k := rw.tmp("k")
	ok := rw.tmp("ok")
	v := rw.tmp("v")
	var head []ast.Stmt
	wantKey := n.Key != nil && !isBlank(n.Key)
	wantVal := n.Value != nil && !isBlank(n.Value)
	head = append(head, define([]ast.Expr{v, ok}, &ast.IndexExpr{X: m, Index: k}))
	head = append(head, &ast.IfStmt{Cond: &ast.UnaryExpr{Op: token.NOT, X: ok}, Body: &ast.BlockStmt{List: []ast.Stmt{&ast.BranchStmt{Tok: token.CONTINUE}}}})
	head = append(head, assign([]ast.Expr{ast.NewIdent("_")}, v))
	if n.Tok == token.DEFINE {
		if wantKey {
			head = append(head, define([]ast.Expr{n.Key}, k), assign([]ast.Expr{ast.NewIdent("_")}, n.Key))
		}
		if wantVal {
			head = append(head, define([]ast.Expr{n.Value}, v), assign([]ast.Expr{ast.NewIdent("_")}, n.Value))
		}
	} else {
		if wantKey {
			head = append(head, assign([]ast.Expr{n.Key}, k))
		}
		if wantVal {
			head = append(head, assign([]ast.Expr{n.Value}, v))
		}
	}
	n.Body.List = append(head, n.Body.List...)
	// for _vsm := m; ... cannot be expressed in a range header; evaluate the
	// map once through a closure-free trick: range over MapKeys(m) and keep m
	// in a variable declared by an enclosing if-less block is not possible
	// without changing the statement kind, so the map expression is
	// evaluated twice only when it is a simple expression.
	if !simpleExpr(n.X) {
		fatalf("%s: range over a map expression with side effects is not supported", rw.fset.Position(n.Pos()))
	}
	// replace uses of the temporary m by the (simple) map expression itself
	for _, st := range head {
		ast.Inspect(st, func(x ast.Node) bool {
			if ie, ok := x.(*ast.IndexExpr); ok && ie.X == ast.Expr(m) {
				ie.X = n.X
			}
			return true
		})
	}
	n.Key, n.Value, n.Tok = ast.NewIdent("_"), k, token.DEFINE
	n.X = simCall("MapKeys", n.X)
}

func isBlank(e ast.Expr) bool {
	id, ok := e.(*ast.Ident)
	return ok && id.Name == "_"
}

func (rw *rewriter) selectStmt(n *ast.SelectStmt) ast.Stmt {
	rw.used = true
	counts["select"]++
	site := rw.site(n, "select")
	type caseInfo struct {
		cc      *ast.CommClause
		send    bool
		ch, val ast.Expr // temporaries
		r, ok   *ast.Ident
		pre     []ast.Stmt // statements to prepend to the body
	}
	var cases []*caseInfo
	var def *ast.CommClause
	var stmts []ast.Stmt
	for _, cl := range n.Body.List {
		cc := cl.(*ast.CommClause)
		if cc.Comm == nil {
			def = cc
			continue
		}
		ci := &caseInfo{cc: cc}
		switch s := cc.Comm.(type) {
		case *ast.SendStmt:
			ci.send = true
			ch := rw.tmp("c")
			stmts = append(stmts, define([]ast.Expr{ch}, s.Chan))
			ci.ch = ch
			if rw.isConstOrNil(s.Value) {
				ci.val = s.Value
			} else {
				v := rw.tmp("v")
				stmts = append(stmts, define([]ast.Expr{v}, s.Value))
				ci.val = v
			}
		case *ast.ExprStmt:
			u := ast.Unparen(s.X).(*ast.UnaryExpr)
			ch := rw.tmp("c")
			stmts = append(stmts, define([]ast.Expr{ch}, u.X))
			ci.ch = ch
		case *ast.AssignStmt:
			u := ast.Unparen(s.Rhs[0]).(*ast.UnaryExpr)
			ch := rw.tmp("c")
			stmts = append(stmts, define([]ast.Expr{ch}, u.X))
			ci.ch = ch
			ci.r, ci.ok = rw.tmp("r"), rw.tmp("k")
			if s.Tok == token.DEFINE {
				ci.pre = append(ci.pre, define(s.Lhs[:1], ci.r), assign([]ast.Expr{ast.NewIdent("_")}, s.Lhs[0]))
				if isBlank(s.Lhs[0]) {
					ci.pre = ci.pre[:0]
				}
				if len(s.Lhs) == 2 && !isBlank(s.Lhs[1]) {
					ci.pre = append(ci.pre, define(s.Lhs[1:2], ci.ok), assign([]ast.Expr{ast.NewIdent("_")}, s.Lhs[1]))
				}
			} else {
				if !isBlank(s.Lhs[0]) {
					ci.pre = append(ci.pre, assign(s.Lhs[:1], ci.r))
				}
				if len(s.Lhs) == 2 && !isBlank(s.Lhs[1]) {
					ci.pre = append(ci.pre, assign(s.Lhs[1:2], ci.ok))
				}
			}
		default:
			fatalf("%s: unsupported comm clause %T", rw.fset.Position(cc.Pos()), cc.Comm)
		}
		cases = append(cases, ci)
	}
	for _, ci := range cases {
		if ci.r != nil {
			stmts = append(stmts,
				define([]ast.Expr{ci.r, ci.ok}, simCall("ZeroOf", ci.ch)),
				assign([]ast.Expr{ast.NewIdent("_"), ast.NewIdent("_")}, ci.r, ci.ok))
		}
	}
	sel := rw.tmp("s")
	fired := rw.tmp("f")
	k := rw.tmp("i")
	nc := len(cases)
	stmts = append(stmts,
		define([]ast.Expr{sel}, simCall("SelBegin", site, intLit(nc))),
		define([]ast.Expr{fired}, &ast.UnaryExpr{Op: token.SUB, X: intLit(1)}),
	)
	// comm builds the comm statement of case i for use in a real select.
	comm := func(ci *caseInfo) ast.Stmt {
		switch {
		case ci.send:
			return &ast.SendStmt{Chan: ci.ch, Value: ci.val}
		case ci.r != nil:
			return assign([]ast.Expr{ci.r, ci.ok}, &ast.UnaryExpr{Op: token.ARROW, X: ci.ch})
		default:
			return exprStmt(&ast.UnaryExpr{Op: token.ARROW, X: ci.ch})
		}
	}
	setFired := func(i int, ci *caseInfo) []ast.Stmt {
		return []ast.Stmt{assign([]ast.Expr{fired}, intLit(i))}
	}
	if nc > 0 {
		// Ordered try.
		var tryCases []ast.Stmt
		for i, ci := range cases {
			var pre []ast.Stmt
			if ci.send {
				pre = append(pre, exprStmt(simCall("Sync", ci.ch)))
			}
			try := &ast.SelectStmt{Body: &ast.BlockStmt{List: []ast.Stmt{
				&ast.CommClause{Comm: comm(ci), Body: setFired(i, ci)},
				&ast.CommClause{},
			}}}
			tryCases = append(tryCases, &ast.CaseClause{List: []ast.Expr{intLit(i)}, Body: append(pre, try)})
		}
		loop := &ast.ForStmt{
			Init: define([]ast.Expr{k}, intLit(0)),
			Cond: &ast.BinaryExpr{X: &ast.BinaryExpr{X: k, Op: token.LSS, Y: intLit(nc)}, Op: token.LAND, Y: &ast.BinaryExpr{X: fired, Op: token.LSS, Y: intLit(0)}},
			Post: &ast.IncDecStmt{X: k, Tok: token.INC},
			Body: &ast.BlockStmt{List: []ast.Stmt{
				&ast.SwitchStmt{Tag: &ast.CallExpr{Fun: &ast.SelectorExpr{X: sel, Sel: ast.NewIdent("At")}, Args: []ast.Expr{k}}, Body: &ast.BlockStmt{List: tryCases}},
			}},
		}
		stmts = append(stmts, loop)
		if def == nil {
			var real []ast.Stmt
			for i, ci := range cases {
				real = append(real, &ast.CommClause{Comm: comm(ci), Body: setFired(i, ci)})
			}
			stmts = append(stmts, &ast.IfStmt{
				Cond: &ast.BinaryExpr{X: fired, Op: token.LSS, Y: intLit(0)},
				Body: &ast.BlockStmt{List: []ast.Stmt{
					exprStmt(&ast.CallExpr{Fun: &ast.SelectorExpr{X: sel, Sel: ast.NewIdent("Block")}}),
					&ast.SelectStmt{Body: &ast.BlockStmt{List: real}},
					exprStmt(&ast.CallExpr{Fun: &ast.SelectorExpr{X: sel, Sel: ast.NewIdent("Wake")}}),
				}},
			})
		}
	}
	// Dispatch.
	var dispatch []ast.Stmt
	for i, ci := range cases {
		body := append([]ast.Stmt{}, ci.pre...)
		if !ci.send {
			body = append([]ast.Stmt{exprStmt(&ast.CallExpr{Fun: &ast.SelectorExpr{X: sel, Sel: ast.NewIdent("Fired")}, Args: []ast.Expr{ci.ch}})}, body...)
		}
		body = append(body, ci.cc.Body...)
		dispatch = append(dispatch, &ast.CaseClause{List: []ast.Expr{intLit(i)}, Body: body})
	}
	if def != nil {
		dispatch = append(dispatch, &ast.CaseClause{Body: def.Body})
	} else {
		// Keeps the statement terminating when every case body is.
		dispatch = append(dispatch, &ast.CaseClause{Body: []ast.Stmt{exprStmt(&ast.CallExpr{
			Fun: ast.NewIdent("panic"), Args: []ast.Expr{&ast.BasicLit{Kind: token.STRING, Value: `"simrt: select fired no case"`}}})}})
	}
	sw := &ast.SwitchStmt{Tag: fired, Body: &ast.BlockStmt{List: dispatch}}
	// The switch must be the last statement and occupy the position of the
	// select so that unlabelled break keeps its meaning. Wrap everything in a
	// block; a label on the select (rare) would now label the block, which
	// still lets "break L" work.
	stmts = append(stmts, sw)
	return &ast.BlockStmt{List: stmts}
}

// callExpr handles sync / atomic / semaphore / context / os calls.
// replaceCall applies the -replace table: calls of listed package functions
// (net.Listen=NetListen) and methods (os.Process.Signal=ProcSignal, receiver
// becomes the first argument) in the listed package are routed to simrt.
func (rw *rewriter) replaceCall(c *astutil.Cursor, call *ast.CallExpr) bool {
	tbl := replaceTable[rw.pkg.Path()]
	if tbl == nil {
		return false
	}
	se, ok := call.Fun.(*ast.SelectorExpr)
	if !ok {
		return false
	}
	if id, ok := se.X.(*ast.Ident); ok {
		if pn, ok := rw.info.Uses[id].(*types.PkgName); ok {
			if to := tbl[pn.Imported().Path()+"."+se.Sel.Name]; to != "" {
				rw.used = true
				counts["replace"]++
				c.Replace(&ast.CallExpr{Fun: &ast.SelectorExpr{X: ast.NewIdent("simrt"), Sel: ast.NewIdent(to)}, Args: call.Args, Ellipsis: call.Ellipsis})
				return true
			}
			return false
		}
	}
	if sel := rw.info.Selections[se]; sel != nil && sel.Kind() == types.MethodVal {
		fn := sel.Obj().(*types.Func)
		rt := fn.Type().(*types.Signature).Recv().Type()
		if p, ok := rt.(*types.Pointer); ok {
			rt = p.Elem()
		}
		if n, ok := types.Unalias(rt).(*types.Named); ok && n.Obj().Pkg() != nil {
			if to := tbl[n.Obj().Pkg().Path()+"."+n.Obj().Name()+"."+fn.Name()]; to != "" {
				rw.used = true
				counts["replace"]++
				args := append([]ast.Expr{se.X}, call.Args...)
				c.Replace(&ast.CallExpr{Fun: &ast.SelectorExpr{X: ast.NewIdent("simrt"), Sel: ast.NewIdent(to)}, Args: args, Ellipsis: call.Ellipsis})
				return true
			}
		}
	}
	return false
}

func (rw *rewriter) callExpr(c *astutil.Cursor, call *ast.CallExpr) {
	if rw.replaceCall(c, call) {
		return
	}
	// os.Pipe()
	if se, ok := call.Fun.(*ast.SelectorExpr); ok {
		if id, ok := se.X.(*ast.Ident); ok {
			if pn, ok := rw.info.Uses[id].(*types.PkgName); ok {
				path := pn.Imported().Path()
				switch {
				case path == "os" && se.Sel.Name == "Pipe":
					rw.used = true
					counts["pipe"]++
					c.Replace(simCall("Pipe"))
					return
				case path == "sync/atomic":
					var obj ast.Expr = ast.NewIdent("nil")
					if len(call.Args) > 0 && simpleExpr(call.Args[0]) {
						obj = call.Args[0]
					}
					rw.wrapCall(c, call, "atomic", 0, obj)
					return
				case path == "time" && se.Sel.Name == "Sleep":
					rw.wrapCall(c, call, "sleep", 1, ast.NewIdent("nil"))
					return
				}
			}
		}
		if sel := rw.info.Selections[se]; sel != nil && sel.Kind() == types.MethodVal {
			fn := sel.Obj().(*types.Func)
			recvT := fn.Type().(*types.Signature).Recv().Type()
			name := fn.Name()
			// -yield: a plain scheduling point before listed methods of
			// un-instrumented libraries (e.g. storage transactions).
			if len(yieldMethods) > 0 {
				rt := recvT
				if p, ok := rt.(*types.Pointer); ok {
					rt = p.Elem()
				}
				if n, ok := types.Unalias(rt).(*types.Named); ok && n.Obj().Pkg() != nil &&
					yieldMethods[n.Obj().Pkg().Path()+"."+n.Obj().Name()+"."+name] {
					rw.wrapCall(c, call, "call."+n.Obj().Name()+"."+name, 0, ast.NewIdent("nil"))
					return
				}
			}
			switch {
			case isNamed(recvT, "sync", "Mutex") || isNamed(recvT, "sync", "RWMutex"):
				repl := map[string]string{"Lock": "Lock", "Unlock": "Unlock", "RLock": "RLock", "RUnlock": "RUnlock"}[name]
				if repl == "" {
					return
				}
				rw.used = true
				counts["lock"]++
				c.Replace(simCall(repl, rw.site(call, strings.ToLower(name)), rw.addrOf(se.X)))
				return
			case isNamed(recvT, "sync", "WaitGroup"):
				kind := 0
				if name == "Wait" {
					kind = 1
				}
				rw.wrapCall(c, call, "wg."+name, kind, rw.objOf(se.X))
				return
			case isNamed(recvT, "sync", "Once"):
				rw.wrapCall(c, call, "once."+name, 1, rw.objOf(se.X))
				return
			case isNamed(recvT, "sync", "Cond"):
				kind := 0
				if name == "Wait" {
					kind = 1
				}
				rw.wrapCall(c, call, "cond."+name, kind, rw.objOf(se.X))
				return
			case fn.Pkg() != nil && fn.Pkg().Path() == "sync/atomic":
				rw.wrapCall(c, call, "atomic."+name, 0, rw.objOf(se.X))
				return
			case isNamed(recvT, "golang.org/x/sync/semaphore", "Weighted"):
				kind := 0
				if name == "Acquire" {
					kind = 1
				}
				rw.wrapCall(c, call, "sema."+name, kind, rw.objOf(se.X))
				return
			case isNamed(recvT, "os", "File"):
				switch name {
				case "Read", "Write", "WriteString", "Close", "ReadFrom", "WriteTo":
					if inner, ok := se.X.(*ast.CallExpr); ok {
						if is, ok := inner.Fun.(*ast.SelectorExpr); ok {
							if id, ok := is.X.(*ast.Ident); ok && id.Name == "simrt" {
								return
							}
						}
					}
					se.X = rw.wrapFile(se.X)
				}
				return
			}
		}
	}
	// close(ch)
	if id, ok := call.Fun.(*ast.Ident); ok && id.Name == "close" {
		if tv, ok := rw.info.Types[call.Fun]; ok && tv.IsBuiltin() && len(call.Args) == 1 {
			var obj ast.Expr = ast.NewIdent("nil")
			if simpleExpr(call.Args[0]) {
				obj = call.Args[0]
			}
			rw.wrapCall(c, call, "close", 0, obj)
			return
		}
	}
	// cancel()
	if tv, ok := rw.info.Types[call.Fun]; ok && !tv.IsType() {
		if isNamed(tv.Type, "context", "CancelFunc") || isNamed(tv.Type, "context", "CancelCauseFunc") {
			rw.wrapCall(c, call, "cancel", 0, ast.NewIdent("nil"))
		}
	}
}

// wrapCall puts a scheduling point before call (and a re-park after it when
// kind == 1).
func (rw *rewriter) wrapCall(c *astutil.Cursor, call *ast.CallExpr, what string, kind int, obj ast.Expr) {
	site := rw.site(call, what)
	closure := func() ast.Expr {
		return simCall("Call0", site, intLit(kind), obj, &ast.FuncLit{
			Type: &ast.FuncType{Params: &ast.FieldList{}},
			Body: &ast.BlockStmt{List: []ast.Stmt{exprStmt(call)}},
		})
	}
	nres := 0
	if tv, ok := rw.info.Types[call]; ok {
		switch t := tv.Type.(type) {
		case *types.Tuple:
			nres = t.Len()
		default:
			if tv.IsVoid() {
				nres = 0
			} else {
				nres = 1
			}
		}
	}
	switch p := c.Parent().(type) {
	case *ast.ExprStmt:
		rw.used = true
		counts["call"]++
		c.Replace(closure())
		return
	case *ast.DeferStmt:
		rw.used = true
		counts["call"]++
		c.Replace(closure())
		return
	case *ast.GoStmt:
		_ = p
		// The go statement rewrite turns the call into a closure body; wrap it
		// there so that the new goroutine yields before the operation.
		rw.used = true
		counts["call"]++
		c.Replace(closure())
		return
	}
	if nres == 1 {
		rw.used = true
		counts["call"]++
		c.Replace(simCall("Post1", simCall("PreV", site, intLit(kind), obj), call))
		return
	}
	warnings++
	fmt.Fprintf(os.Stderr, "simrewrite: warning: %s: %s call with %d results in expression context left un-instrumented\n", rw.fset.Position(call.Pos()), what, nres)
}

// ---- happens-before instrumentation of designated state -------------------

func (rw *rewriter) hbPost(c *astutil.Cursor) {
	if len(hbFields) == 0 && len(hbMapTypes) == 0 && len(hbElems) == 0 && !hbCaptured {
		return
	}
	if strings.HasSuffix(rw.pkg.Path(), "/zzverif/h") {
		// the harness's own bookkeeping is not state of the code under test
		return
	}
	// Only statements in statement lists are instrumented: the accesses a
	// statement makes are reported just before it.
	st, ok := c.Node().(ast.Stmt)
	if !ok {
		return
	}
	switch c.Parent().(type) {
	case *ast.BlockStmt, *ast.CaseClause, *ast.CommClause:
	default:
		return
	}
	if _, isBlock := st.(*ast.BlockStmt); isBlock {
		return
	}
	if c.Index() < 0 {
		// not an element of a statement list (the communication of a select case)
		return
	}
	reads, writes := rw.hbAccesses(st)
	if len(reads)+len(writes) == 0 {
		return
	}
	var pre []ast.Stmt
	for _, a := range writes {
		fn := "Write"
		if a.all {
			fn = "WriteElems"
		}
		pre = append(pre, exprStmt(simCall(fn, rw.site(st, "w:"+a.desc), a.key)))
	}
	for _, a := range reads {
		fn := "Read"
		if a.all {
			fn = "ReadElems"
		}
		pre = append(pre, exprStmt(simCall(fn, rw.site(st, "r:"+a.desc), a.key)))
	}
	rw.used = true
	counts["hb"] += len(pre)
	for _, p := range pre {
		c.InsertBefore(p)
	}
}

type hbAcc struct {
	key  ast.Expr
	desc string
	all  bool // key is a slice; every element is accessed
}

// hbAccesses finds, in the header part of a statement (not in nested blocks,
// which are visited as statements of their own), the designated fields and
// maps it reads and writes.
func (rw *rewriter) hbAccesses(st ast.Stmt) (reads, writes []hbAcc) {
	seen := map[string]bool{}
	add := func(list *[]hbAcc, key ast.Expr, desc string) {
		var buf bytes.Buffer
		format.Node(&buf, rw.fset, key)
		k := buf.String() + "|" + desc
		if list == &writes {
			k = "w" + k
		}
		if seen[k] {
			return
		}
		seen[k] = true
		*list = append(*list, hbAcc{key: key, desc: desc})
	}
	designatedIn := func(se *ast.SelectorExpr, fields []hbField) (string, bool) {
		sel := rw.info.Selections[se]
		if sel == nil || sel.Kind() != types.FieldVal {
			return "", false
		}
		v, ok := sel.Obj().(*types.Var)
		if !ok || v.Pkg() == nil {
			return "", false
		}
		recv := sel.Recv()
		for _, f := range fields {
			if v.Name() == f.field && v.Pkg().Path() == f.pkg && isNamed(recv, f.pkg, f.typ) {
				return f.typ + "." + f.field, true
			}
			// Type.* designates every field of the type, except fields that
			// are synchronisation objects themselves (their methods are the
			// synchronisation; touching them is not a plain memory access)
			if f.field == "*" && v.Pkg().Path() == f.pkg && isNamed(recv, f.pkg, f.typ) && !isSyncType(v.Type()) {
				return f.typ + "." + v.Name(), true
			}
		}
		return "", false
	}
	isDesignatedField := func(se *ast.SelectorExpr) (string, bool) { return designatedIn(se, hbFields) }
	// a slice-typed field whose elements are designated
	isElemsField := func(e ast.Expr) (string, bool) {
		se, ok := ast.Unparen(e).(*ast.SelectorExpr)
		if !ok || len(hbElems) == 0 {
			return "", false
		}
		return designatedIn(se, hbElems)
	}
	addAll := func(list *[]hbAcc, key ast.Expr, desc string) {
		add(list, key, desc)
		(*list)[len(*list)-1].all = true
	}
	isDesignatedMap := func(e ast.Expr) bool {
		t := rw.typeOf(e)
		if t == nil {
			return false
		}
		ts := types.TypeString(t, nil)
		for _, m := range hbMapTypes {
			if ts == m {
				return true
			}
			if m == "*" {
				// every map of the instrumented packages: an unsynchronised
				// map access is a crash in Go ("concurrent map read and map
				// write"), which a serialising scheduler can never trigger itself
				if _, ok := t.Underlying().(*types.Map); ok {
					return true
				}
			}
		}
		return false
	}
	var visitExpr func(e ast.Expr, write bool)
	visitExpr = func(e ast.Expr, write bool) {
		if e == nil {
			return
		}
		if write {
			// a write to x.f.g lands inside the memory of x.f when f holds a
			// struct VALUE: it is a write of the designated field x.f
			cur := ast.Unparen(e)
			for first := true; ; first = false {
				se, ok := cur.(*ast.SelectorExpr)
				if !ok {
					break
				}
				if desc, ok := isDesignatedField(se); ok && simpleExpr(se.X) {
					if !first {
						add(&writes, &ast.UnaryExpr{Op: token.AND, X: se}, desc)
					}
					break
				}
				t := rw.typeOf(se.X)
				if t == nil {
					break
				}
				if _, isPtr := types.Unalias(t).Underlying().(*types.Pointer); isPtr {
					break
				}
				cur = ast.Unparen(se.X)
			}
		}
		ast.Inspect(e, func(n ast.Node) bool {
			switch n := n.(type) {
			case *ast.FuncLit:
				return false
			case *ast.Ident:
				if v, ok := rw.info.Uses[n].(*types.Var); ok && rw.shared[v] {
					key := &ast.UnaryExpr{Op: token.AND, X: ast.NewIdent(n.Name)}
					if write && n == ast.Unparen(e) {
						add(&writes, key, "var "+n.Name)
					} else {
						add(&reads, key, "var "+n.Name)
					}
				}
			case *ast.SelectorExpr:
				if desc, ok := isDesignatedField(n); ok && simpleExpr(n.X) {
					key := &ast.UnaryExpr{Op: token.AND, X: n}
					if write && n == ast.Unparen(e) {
						add(&writes, key, desc)
					} else {
						add(&reads, key, desc)
					}
				}
			case *ast.IndexExpr:
				if desc, ok := isElemsField(n.X); ok && simpleExpr(n.X) && simpleExpr(n.Index) {
					key := &ast.UnaryExpr{Op: token.AND, X: n}
					if write && n == ast.Unparen(e) {
						add(&writes, key, desc+"[i]")
					} else {
						add(&reads, key, desc+"[i]")
					}
				}
				if isDesignatedMap(n.X) && simpleExpr(n.X) {
					if write && n == ast.Unparen(e) {
						add(&writes, n.X, "map")
						visitExpr(n.Index, false)
						return false
					}
					add(&reads, n.X, "map")
				}
			case *ast.CallExpr:
				if id, ok := n.Fun.(*ast.Ident); ok && (id.Name == "copy" || id.Name == "append") && len(hbElems) > 0 {
					// copy(dst, src) writes every element of dst and reads every
					// element of src; append(x, src...) reads every element of src
					for i, a := range n.Args {
						if desc, ok := isElemsField(a); ok && simpleExpr(a) {
							if id.Name == "copy" && i == 0 {
								addAll(&writes, a, desc+"[*]")
							} else if id.Name == "copy" || n.Ellipsis.IsValid() || i == 0 {
								addAll(&reads, a, desc+"[*]")
							}
						}
					}
				}
				if id, ok := n.Fun.(*ast.Ident); ok && (id.Name == "len" || id.Name == "delete") && len(n.Args) > 0 && isDesignatedMap(n.Args[0]) && simpleExpr(n.Args[0]) {
					if id.Name == "delete" {
						add(&writes, n.Args[0], "map")
					} else {
						add(&reads, n.Args[0], "map")
					}
				} else {
					// a designated map handed to a function is read by it
					for _, a := range n.Args {
						if isDesignatedMap(a) && simpleExpr(a) {
							add(&reads, a, "map-arg")
						}
					}
				}
			}
			return true
		})
	}
	switch s := st.(type) {
	case *ast.AssignStmt:
		for _, l := range s.Lhs {
			visitExpr(l, s.Tok != token.DEFINE)
		}
		for _, r := range s.Rhs {
			visitExpr(r, false)
		}
	case *ast.IncDecStmt:
		visitExpr(s.X, true)
		visitExpr(s.X, false)
	case *ast.ExprStmt:
		visitExpr(s.X, false)
	case *ast.ReturnStmt:
		for _, r := range s.Results {
			visitExpr(r, false)
		}
	case *ast.IfStmt:
		if s.Init != nil {
			r, w := rw.hbAccesses(s.Init)
			reads, writes = append(reads, r...), append(writes, w...)
		}
		visitExpr(s.Cond, false)
	case *ast.ForStmt:
		visitExpr(s.Cond, false)
	case *ast.RangeStmt:
		visitExpr(s.X, false)
		if isDesignatedMap(s.X) && simpleExpr(s.X) {
			add(&reads, s.X, "map-range")
		}
	case *ast.SwitchStmt:
		visitExpr(s.Tag, false)
	case *ast.DeclStmt:
		if gd, ok := s.Decl.(*ast.GenDecl); ok {
			for _, sp := range gd.Specs {
				if vs, ok := sp.(*ast.ValueSpec); ok {
					for _, v := range vs.Values {
						visitExpr(v, false)
					}
				}
			}
		}
	case *ast.DeferStmt, *ast.GoStmt, *ast.SendStmt:
		// arguments are evaluated here
		ast.Inspect(s, func(n ast.Node) bool {
			if e, ok := n.(ast.Expr); ok {
				visitExpr(e, false)
				return false
			}
			return true
		})
	}
	return
}
