// verif is the driver of the deterministic-simulation checks.
//
//	verif check <id> --tier quick|thorough
//	verif replay <file>
//	verif selftest determinism|noop [ids...]
//
// Every invocation copies /repo's working tree to a fresh scratch directory,
// instruments it with simrewrite, builds the harness with go1.26.8 and runs
// seeds in parallel worker processes. Exit status: 0 property held on
// everything explored, 1 violation (with a VIOLATION line), 2 infrastructure
// trouble (never a violation).
package main

import (
	"bufio"
	"encoding/json"
	"flag"
	"fmt"
	"os"
	"os/exec"
	"path/filepath"
	"regexp"
	"runtime"
	"sort"
	"strconv"
	"strings"
	"sync"
	"time"
)

const repoDir = "/repo"

// verifDir is the verification tree this binary belongs to: the parent of the
// directory it was built into (<verif>/bin/verif). A snapshot of /verif (vp
// run) therefore uses its own sources and writes its own evidence.
var verifDir = func() string {
	if exe, err := os.Executable(); err == nil {
		if d := filepath.Dir(filepath.Dir(exe)); d != "" {
			if _, err := os.Stat(filepath.Join(d, "harness")); err == nil {
				return d
			}
		}
	}
	return "/verif"
}()

func goBin() string {
	if g := os.Getenv("VERIF_GO"); g != "" {
		return g
	}
	return "go1.26.8"
}

func infra(format string, args ...any) {
	fmt.Fprintf(os.Stderr, "verif: infrastructure error: "+format+"\n", args...)
	os.Exit(2)
}

func goEnv() []string {
	env := os.Environ()
	env = append(env, "GOFLAGS=-mod=mod", "GOPROXY=off", "GOSUMDB=off", "GOTOOLCHAIN=local", "CGO_ENABLED=0")
	return env
}

func run(dir string, name string, args ...string) error {
	cmd := exec.Command(name, args...)
	cmd.Dir = dir
	cmd.Env = goEnv()
	out, err := cmd.CombinedOutput()
	if err != nil {
		return fmt.Errorf("%s %s: %v\n%s", name, strings.Join(args, " "), err, tail(string(out), 6000))
	}
	if os.Getenv("VERIF_VERBOSE") != "" {
		fmt.Fprint(os.Stderr, string(out))
	}
	return nil
}

func tail(s string, n int) string {
	if len(s) > n {
		return "…" + s[len(s)-n:]
	}
	return s
}

// rewritePkgs is the uniform list of instrumented packages (one build serves
// every property, so the Go build cache is shared between checks).
var rewritePkgs = []string{
	"src.elv.sh/pkg/eval",
	"src.elv.sh/pkg/eval/vars",
	"src.elv.sh/pkg/cli",
	"src.elv.sh/pkg/edit/highlight",
	"src.elv.sh/pkg/daemon",
	"src.elv.sh/pkg/rpc",
	"src.elv.sh/pkg/store",
	"src.elv.sh/pkg/lsp",
	"src.elv.sh/zzverif/h",
}

// replaceSpec routes the daemon package's sockets, socket-file operations,
// pid and signal delivery to the simulated namespace / process table.
const replaceSpec = "src.elv.sh/pkg/daemon:net.Listen=NetListen,net.Dial=NetDial,os.Lstat=FSLstat,os.Remove=FSRemove,syscall.Getpid=Getpid,os.Process.Signal=ProcSignal"

const hbSpec = "src.elv.sh/pkg/eval.Evaler.global,src.elv.sh/pkg/eval.Evaler.builtin,src.elv.sh/pkg/eval.Evaler.deprecations,src.elv.sh/pkg/eval.Evaler.modules,src.elv.sh/pkg/eval.Evaler.evalCount,maptype:map[string]*src.elv.sh/pkg/eval.Ns,maptype:map[pkg.nimblebun.works/go-lsp.DocumentURI]src.elv.sh/pkg/lsp.document,maptype:*,captured,elems:src.elv.sh/pkg/eval.Ns.slots,elems:src.elv.sh/pkg/eval.Frame.ports,src.elv.sh/pkg/eval.Frame.*,src.elv.sh/pkg/eval.Port.*,src.elv.sh/pkg/eval.Ns.*,src.elv.sh/pkg/eval.Closure.*,src.elv.sh/pkg/eval.Evaler.*,src.elv.sh/pkg/rpc.Client.*,src.elv.sh/pkg/rpc.Call.*,src.elv.sh/pkg/rpc.Server.*,src.elv.sh/pkg/rpc.gobClientCodec.*,src.elv.sh/pkg/rpc.gobServerCodec.*,src.elv.sh/pkg/daemon.client.*,src.elv.sh/pkg/daemon.service.*,src.elv.sh/pkg/edit/highlight.Highlighter.*,src.elv.sh/pkg/edit/highlight.cache.*,src.elv.sh/pkg/cli.loop.*,src.elv.sh/pkg/lsp.server.*,src.elv.sh/pkg/store.dbStore.*"

// prepare builds the harness binary in a fresh scratch directory and returns
// (scratch dir, path of the test binary).
func prepare(tag string) (string, string) {
	t0 := time.Now()
	scratch, err := os.MkdirTemp("", "verif-"+tag+"-")
	if err != nil {
		infra("mktemp: %v", err)
	}
	root := filepath.Join(scratch, "repo")
	repoDir := repoDir
	if alt := os.Getenv("VERIF_REPO"); alt != "" {
		// Only used by the mutant self-test, which works on scratch worktrees.
		repoDir = alt
	}
	if err := run("/", "rsync", "-a", "--exclude", ".git", "--exclude", "/website", repoDir+"/", root+"/"); err != nil {
		cleanup(scratch)
		infra("copying %s: %v", repoDir, err)
	}
	must := func(err error) {
		if err != nil {
			cleanup(scratch)
			infra("%v", err)
		}
	}
	must(copyGoFiles(filepath.Join(verifDir, "simrt"), filepath.Join(root, "zzverif", "simrt")))
	must(copyGoFiles(filepath.Join(verifDir, "harness"), filepath.Join(root, "zzverif", "h")))
	// Export shims.
	shimRoot := filepath.Join(verifDir, "shims")
	filepath.Walk(shimRoot, func(p string, fi os.FileInfo, err error) error {
		if err != nil || fi.IsDir() || !strings.HasSuffix(p, ".go") {
			return nil
		}
		rel, _ := filepath.Rel(shimRoot, p)
		dst := filepath.Join(root, rel)
		if strings.HasPrefix(rel, "_bbolt"+string(filepath.Separator)) {
			return nil
		}
		b, _ := os.ReadFile(p)
		os.MkdirAll(filepath.Dir(dst), 0o755)
		must(os.WriteFile(dst, b, 0o644))
		return nil
	})
	// go.mod additions.
	gm, err := os.ReadFile(filepath.Join(root, "go.mod"))
	must(err)
	add := "\ngodebug asynctimerchan=0\nrequire github.com/anishathalye/porcupine v1.3.0\n"
	// bbolt with the write-interception seam (C25): a scratch copy of the cached module.
	if bb := prepareBbolt(scratch); bb != "" {
		add += "replace go.etcd.io/bbolt => " + bb + "\n"
	}
	must(os.WriteFile(filepath.Join(root, "go.mod"), append(gm, add...), 0o644))
	// Instrument.
	args := append([]string{"-root", root, "-hb", hbSpec, "-replace", replaceSpec,
		"-yield", "go.etcd.io/bbolt.DB.Update,go.etcd.io/bbolt.DB.View,go.etcd.io/bbolt.DB.Close"}, rewritePkgs...)
	must(run(root, filepath.Join(verifDir, "bin", "simrewrite"), args...))
	bin := filepath.Join(scratch, "h.test")
	must(run(root, goBin(), "test", "-c", "-trimpath", "-tags", "verif", "-o", bin, "./zzverif/h"))
	fmt.Fprintf(os.Stderr, "verif: built instrumented harness in %.1fs (%s)\n", time.Since(t0).Seconds(), scratch)
	return scratch, bin
}

func prepareBbolt(scratch string) string {
	src := filepath.Join(os.Getenv("HOME"), "go", "pkg", "mod", "go.etcd.io", "bbolt@v1.3.10")
	if gp := os.Getenv("GOMODCACHE"); gp != "" {
		src = filepath.Join(gp, "go.etcd.io", "bbolt@v1.3.10")
	}
	if _, err := os.Stat(src); err != nil {
		return ""
	}
	shim := filepath.Join(verifDir, "shims", "_bbolt")
	if _, err := os.Stat(shim); err != nil {
		return ""
	}
	dst := filepath.Join(scratch, "bbolt")
	if err := run("/", "rsync", "-a", "--chmod=u+w", src+"/", dst+"/"); err != nil {
		infra("copying bbolt: %v", err)
	}
	if err := copyGoFiles(shim, dst); err != nil {
		infra("bbolt shim: %v", err)
	}
	// Route the two file-mutating calls of db.go through the seam.
	dbgo := filepath.Join(dst, "db.go")
	b, err := os.ReadFile(dbgo)
	if err != nil {
		infra("bbolt: %v", err)
	}
	s := string(b)
	for _, r := range [][2]string{
		{"db.ops.writeAt = db.file.WriteAt", "db.ops.writeAt = verifWrapWriteAt(db, db.file.WriteAt)"},
		{"db.file.Truncate(int64(sz))", "verifTruncate(db, int64(sz))"},
	} {
		if strings.Count(s, r[0]) != 1 {
			infra("bbolt seam: expected exactly one occurrence of %q in db.go", r[0])
		}
		s = strings.Replace(s, r[0], r[1], 1)
	}
	if err := os.WriteFile(dbgo, []byte(s), 0o644); err != nil {
		infra("bbolt: %v", err)
	}
	// The file-lock retry loop sleeps: route that sleep through a hook so the
	// goroutine re-parks after waking instead of running on its own.
	ux := filepath.Join(dst, "bolt_unix.go")
	ub, err := os.ReadFile(ux)
	if err != nil {
		infra("bbolt: %v", err)
	}
	us := string(ub)
	if strings.Count(us, "time.Sleep(flockRetryTimeout)") != 1 {
		infra("bbolt seam: expected exactly one time.Sleep(flockRetryTimeout) in bolt_unix.go")
	}
	us = strings.Replace(us, "time.Sleep(flockRetryTimeout)", "verifSleep(flockRetryTimeout)", 1)
	if err := os.WriteFile(ux, []byte(us), 0o644); err != nil {
		infra("bbolt: %v", err)
	}
	return dst
}

func copyGoFiles(src, dst string) error {
	if err := os.MkdirAll(dst, 0o755); err != nil {
		return err
	}
	ents, err := os.ReadDir(src)
	if err != nil {
		return err
	}
	for _, e := range ents {
		if e.IsDir() || !strings.HasSuffix(e.Name(), ".go") {
			continue
		}
		b, err := os.ReadFile(filepath.Join(src, e.Name()))
		if err != nil {
			return err
		}
		if err := os.WriteFile(filepath.Join(dst, e.Name()), b, 0o644); err != nil {
			return err
		}
	}
	return nil
}

func cleanup(scratch string) {
	if os.Getenv("VERIF_KEEP") != "" {
		fmt.Fprintln(os.Stderr, "verif: keeping", scratch)
		return
	}
	exec.Command("chmod", "-R", "u+w", scratch).Run()
	os.RemoveAll(scratch)
}

// Result mirrors the harness's per-run record.
type Result struct {
	Prop      string          `json:"prop"`
	Seed      uint64          `json:"seed"`
	OK        bool            `json:"ok"`
	Class     string          `json:"class,omitempty"`
	Clause    string          `json:"clause,omitempty"`
	Detail    string          `json:"detail,omitempty"`
	Stack     string          `json:"stack,omitempty"`
	Steps     int             `json:"steps"`
	Choices   int             `json:"choices"`
	Hash      string          `json:"hash"`
	Sig       string          `json:"sig"`
	SimNS     int64           `json:"sim_ns"`
	Strategy  string          `json:"strategy"`
	Gs        int             `json:"goroutines"`
	Faults    map[string]int  `json:"faults,omitempty"`
	Probes    map[string]int  `json:"probes,omitempty"`
	Case      json.RawMessage `json:"case,omitempty"`
	Trivial   bool            `json:"trivial,omitempty"`
	Sub       int             `json:"sub,omitempty"`
	Tapes     *TapeDump       `json:"tapes,omitempty"`
	Trace     json.RawMessage `json:"trace,omitempty"`
	KnownHits map[string]int  `json:"known_hits,omitempty"`
}

type TapeDump struct {
	Workload []uint32 `json:"workload"`
	Sched    []uint32 `json:"sched"`
	Faults   []uint32 `json:"faults"`
}

type ReplayFile struct {
	Prop   string          `json:"property"`
	Seed   uint64          `json:"seed"`
	Tier   string          `json:"tier"`
	Class  string          `json:"class"`
	Clause string          `json:"clause"`
	Detail string          `json:"detail"`
	Tapes  TapeDump        `json:"tapes"`
	Trace  json.RawMessage `json:"trace,omitempty"`
	Case   json.RawMessage `json:"case,omitempty"`
	Shrink map[string]int  `json:"shrink,omitempty"`
}

type knownFinding struct {
	Property string `json:"property"`
	ID       string `json:"id"`
	Status   string `json:"status"` // "open" or "fixed"
	Class    string `json:"class"`  // violation class
	Clause   string `json:"clause"` // oracle clause
	Match    string `json:"match"`  // regexp over detail + "\n" + case JSON
	What     string `json:"what"`
	Commit   string `json:"commit,omitempty"`
	re       *regexp.Regexp
}

func loadKnown() []*knownFinding {
	b, err := os.ReadFile(filepath.Join(verifDir, "known-findings.json"))
	if err != nil {
		return nil
	}
	var file struct {
		Findings []*knownFinding `json:"findings"`
	}
	if err := json.Unmarshal(b, &file); err != nil {
		infra("known-findings.json: %v", err)
	}
	for _, k := range file.Findings {
		re, err := regexp.Compile(k.Match)
		if err != nil {
			infra("known-findings.json: %s: %v", k.ID, err)
		}
		k.re = re
	}
	return file.Findings
}

func matchKnown(known []*knownFinding, r *Result) *knownFinding {
	for _, k := range known {
		if k.Status != "open" || k.Property != r.Prop {
			continue
		}
		if k.Class != "" && k.Class != r.Class {
			continue
		}
		if k.Clause != "" && k.Clause != r.Clause {
			continue
		}
		if k.re.MatchString(r.Detail + "\n" + string(r.Case)) {
			return k
		}
	}
	return nil
}

type aggregate struct {
	mu        sync.Mutex
	runs      int
	steps     int64
	simNS     int64
	sub       int
	sigs      map[string]bool
	nontriv   int
	faults    map[string]int
	probes    map[string]int
	strat     map[string]int
	samples   []json.RawMessage
	viol      []*Result
	knownHits map[string]int
	firstSeed uint64
	lastSeed  uint64
}

func (a *aggregate) add(r *Result, known []*knownFinding) {
	a.mu.Lock()
	defer a.mu.Unlock()
	a.runs++
	a.steps += int64(r.Steps)
	a.simNS += r.SimNS
	a.sub += r.Sub
	if a.firstSeed == 0 || r.Seed < a.firstSeed {
		a.firstSeed = r.Seed
	}
	if r.Seed > a.lastSeed {
		a.lastSeed = r.Seed
	}
	if !r.Trivial {
		if !a.sigs[r.Sig] {
			a.sigs[r.Sig] = true
			a.nontriv++
		}
	}
	for k, v := range r.Faults {
		a.faults[k] += v
	}
	for k, v := range r.Probes {
		a.probes[k] += v
	}
	a.strat[r.Strategy]++
	for k, v := range r.KnownHits {
		a.knownHits[k] += v
	}
	if len(a.samples) < 3 && len(r.Case) > 0 && !r.Trivial {
		s, _ := json.Marshal(map[string]any{"seed": r.Seed, "steps": r.Steps, "choices": r.Choices, "strategy": r.Strategy, "case": r.Case, "faults": r.Faults})
		if len(s) < 20000 {
			a.samples = append(a.samples, s)
		}
	}
	if !r.OK {
		if k := matchKnown(known, r); k != nil {
			a.knownHits[k.ID]++
		} else {
			a.viol = append(a.viol, r)
		}
	}
}

type tierCfg struct {
	Seeds   int // number of seeds to run
	Secs    int // wall-clock budget for running seeds
	Batch   int // seeds per worker invocation
	Workers int
}

type propCfg struct {
	ID          string
	Level       string
	Quick       tierCfg
	Thorough    tierCfg
	Rule        string
	Real        []string
	Stub        []string
	Assumptions []string
	SimEngine   string
}

func workers() int {
	n := runtime.NumCPU()
	if n > 16 {
		n = 16
	}
	if v := os.Getenv("VERIF_WORKERS"); v != "" {
		if k, err := strconv.Atoi(v); err == nil && k > 0 {
			n = k
		}
	}
	return n
}

// runWorker runs one worker process over seeds [seed0, seed0+n) and feeds
// every result to f. It returns the seed to continue from (past a violation)
// or seed0+n when the batch is complete.
func runWorkerEnv(bin, scratch, prop, tier string, seed0 uint64, n int, wid int, env []string, f func(*Result)) (uint64, error) {
	return runWorkerFull(bin, scratch, prop, tier, seed0, n, time.Now().Add(24*time.Hour), wid, env, f)
}

func runWorker(bin, scratch, prop, tier string, seed0 uint64, n int, deadline time.Time, wid int, f func(*Result)) (next uint64, err error) {
	return runWorkerFull(bin, scratch, prop, tier, seed0, n, deadline, wid, nil, f)
}

func runWorkerFull(bin, scratch, prop, tier string, seed0 uint64, n int, deadline time.Time, wid int, extraEnv []string, f func(*Result)) (next uint64, err error) {
	out := filepath.Join(scratch, fmt.Sprintf("out-%d-%d.jsonl", wid, seed0))
	cmd := exec.Command(bin, "-test.run", "^TestWorker$", "-test.timeout", "0")
	cmd.Dir = scratch
	cmd.Env = append(os.Environ(),
		"VERIF_PROP="+prop, "VERIF_TIER="+tier,
		"VERIF_SEED0="+strconv.FormatUint(seed0, 10), "VERIF_NSEEDS="+strconv.Itoa(n),
		"VERIF_OUT="+out, "VERIF_DEADLINE="+strconv.FormatInt(deadline.Unix(), 10),
		"GOMAXPROCS=2", "TMPDIR="+filepath.Join(scratch, "tmp"), "VERIF_KNOWN_FILE="+filepath.Join(verifDir, "known-findings.json"))
	cmd.Env = append(cmd.Env, extraEnv...)
	logPath := out + ".log"
	lf, _ := os.Create(logPath)
	cmd.Stdout, cmd.Stderr = lf, lf
	runErr := cmd.Run()
	lf.Close()
	next = seed0
	fh, oerr := os.Open(out)
	if oerr == nil {
		sc := bufio.NewScanner(fh)
		sc.Buffer(make([]byte, 1<<20), 1<<28)
		for sc.Scan() {
			var r Result
			if e := json.Unmarshal(sc.Bytes(), &r); e != nil {
				fh.Close()
				return next, fmt.Errorf("bad worker output line: %v", e)
			}
			if !r.OK && r.Class == "budget" && extraEnv == nil {
				// The step budget guards against runs that never end; it is not
				// part of any property. Repeat the evaluation alone under a
				// budget 10 times larger: a long evaluation completes (its
				// result replaces this one), a livelock runs out again.
				if r2 := confirmBudget(bin, scratch, prop, tier, r.Seed); r2 != nil {
					r = *r2
				}
			}
			f(&r)
			next = r.Seed + 1
		}
		fh.Close()
		os.Remove(out)
	}
	code := 0
	if runErr != nil {
		if ee, ok := runErr.(*exec.ExitError); ok {
			code = ee.ExitCode()
		} else {
			return next, runErr
		}
	}
	switch code {
	case 0:
		os.Remove(logPath)
		return seed0 + uint64(n), nil // complete (or deadline reached)
	case 3:
		os.Remove(logPath)
		return next, nil // stopped at a violation; continue after it
	default:
		lb, _ := os.ReadFile(logPath)
		log := string(lb)
		// A fatal error of the Go runtime (unlock of unlocked mutex, concurrent
		// map access, stack overflow, ...) in the code under test kills the
		// worker while it runs seed `next`. That is a crash of the interpreter,
		// not infrastructure trouble — unless the simulator's own watchdog
		// fired. Confirm by re-running that seed alone.
		i := strings.Index(log, "fatal error: ")
		if i < 0 {
			// an unrecovered panic on a goroutine born in un-instrumented
			// library code (e.g. a protocol handler called by jsonrpc2)
			i = strings.Index(log, "panic: ")
		}
		if i >= 0 && !strings.Contains(log, "simrt watchdog") && n > 0 && extraEnv == nil {
			line := log[i:]
			if j := strings.Index(line, "\n"); j > 0 {
				line = line[:j]
			}
			crashSeed := next
			if confirmFatal(bin, scratch, prop, tier, crashSeed) {
				f(&Result{Prop: prop, Seed: crashSeed, OK: false, Class: "fatal", Clause: "fatal",
					Detail: "the process dies with a Go runtime " + line + "\n" + tail(log[i:], 3000), Tapes: &TapeDump{}})
				return crashSeed + 1, nil
			}
		}
		return next, fmt.Errorf("worker exited with status %d (seeds from %d):\n%s", code, seed0, tail(log, 8000))
	}
}

// confirmBudget re-runs one seed in its own process with a 10 times larger step
// budget and returns its result (nil if that could not be obtained).
func confirmBudget(bin, scratch, prop, tier string, seed uint64) *Result {
	out := filepath.Join(scratch, fmt.Sprintf("budget-confirm-%d.jsonl", seed))
	defer os.Remove(out)
	cmd := exec.Command(bin, "-test.run", "^TestWorker$", "-test.timeout", "0")
	cmd.Dir = scratch
	cmd.Env = append(os.Environ(), "VERIF_PROP="+prop, "VERIF_TIER="+tier, "VERIF_BUDGET_SCALE=10", "VERIF_WATCHDOG_S=600",
		"VERIF_SEED0="+strconv.FormatUint(seed, 10), "VERIF_NSEEDS=1", "VERIF_OUT="+out,
		"GOMAXPROCS=2", "TMPDIR="+filepath.Join(scratch, "tmp"), "VERIF_KNOWN_FILE="+filepath.Join(verifDir, "known-findings.json"))
	cmd.Run()
	b, err := os.ReadFile(out)
	if err != nil {
		return nil
	}
	lines := strings.Split(strings.TrimSpace(string(b)), "\n")
	var r Result
	if json.Unmarshal([]byte(lines[len(lines)-1]), &r) != nil || r.Seed != seed {
		return nil
	}
	if r.Probes == nil {
		r.Probes = map[string]int{}
	}
	r.Probes["engine:step-budget-ran-out-repeated-with-10x"]++
	return &r
}

// confirmFatal re-runs one seed in its own process and reports whether it
// dies with a runtime fatal error again.
func confirmFatal(bin, scratch, prop, tier string, seed uint64) bool {
	cmd := exec.Command(bin, "-test.run", "^TestWorker$", "-test.timeout", "0")
	cmd.Dir = scratch
	cmd.Env = append(os.Environ(), "VERIF_PROP="+prop, "VERIF_TIER="+tier,
		"VERIF_SEED0="+strconv.FormatUint(seed, 10), "VERIF_NSEEDS=1", "VERIF_OUT="+filepath.Join(scratch, "fatal-confirm.jsonl"),
		"GOMAXPROCS=2", "TMPDIR="+filepath.Join(scratch, "tmp"), "VERIF_KNOWN_FILE="+filepath.Join(verifDir, "known-findings.json"))
	out, err := cmd.CombinedOutput()
	os.Remove(filepath.Join(scratch, "fatal-confirm.jsonl"))
	if err == nil {
		return false
	}
	o := string(out)
	return (strings.Contains(o, "fatal error: ") || strings.Contains(o, "panic: ")) && !strings.Contains(o, "simrt watchdog")
}

func runReplay(bin, scratch string, rf *ReplayFile, trace bool) (*Result, error) {
	p := filepath.Join(scratch, fmt.Sprintf("replay-%d.json", time.Now().UnixNano()))
	b, _ := json.Marshal(rf)
	if err := os.WriteFile(p, b, 0o644); err != nil {
		return nil, err
	}
	defer os.Remove(p)
	out := p + ".out"
	defer os.Remove(out)
	cmd := exec.Command(bin, "-test.run", "^TestWorker$", "-test.timeout", "0")
	cmd.Dir = scratch
	cmd.Env = append(os.Environ(), "VERIF_PROP="+rf.Prop, "VERIF_REPLAY="+p, "VERIF_OUT="+out, "GOMAXPROCS=2", "VERIF_WATCHDOG_S=30", "TMPDIR="+filepath.Join(scratch, "tmp"), "VERIF_KNOWN_FILE="+filepath.Join(verifDir, "known-findings.json"))
	if trace {
		cmd.Env = append(cmd.Env, "VERIF_TRACE=1")
	}
	if rf.Class == "budget" {
		// budget verdicts are only ever reported under the 10x budget (see confirmBudget)
		cmd.Env = append(cmd.Env, "VERIF_BUDGET_SCALE=10", "VERIF_WATCHDOG_S=600")
	}
	var stderr strings.Builder
	cmd.Stderr = &stderr
	cmd.Stdout = &stderr
	err := cmd.Run()
	code := 0
	if err != nil {
		if ee, ok := err.(*exec.ExitError); ok {
			code = ee.ExitCode()
		} else {
			return nil, err
		}
	}
	if code != 0 && code != 3 {
		return nil, fmt.Errorf("replay worker exited with status %d:\n%s", code, tail(stderr.String(), 4000))
	}
	ob, err := os.ReadFile(out)
	if err != nil {
		return nil, err
	}
	lines := strings.Split(strings.TrimSpace(string(ob)), "\n")
	var r Result
	if err := json.Unmarshal([]byte(lines[len(lines)-1]), &r); err != nil {
		return nil, err
	}
	return &r, nil
}

// shrink minimises the tapes of a failing run while the same violation
// (class + clause) persists.
func shrink(bin, scratch string, rf *ReplayFile, budget time.Duration, maxTries int) (tries int) {
	deadline := time.Now().Add(budget)
	same := func(c *ReplayFile) bool {
		if tries >= maxTries || time.Now().After(deadline) {
			return false
		}
		tries++
		r, err := runReplay(bin, scratch, c, false)
		if err != nil || r == nil || r.OK {
			return false
		}
		if r.Class != rf.Class || r.Clause != rf.Clause {
			return false
		}
		// adopt the recorded tapes of the candidate run (normalised)
		if r.Tapes != nil {
			c.Tapes = *r.Tapes
		}
		c.Detail = r.Detail
		c.Case = r.Case
		return true
	}
	tapes := []func(*ReplayFile) *[]uint32{
		func(r *ReplayFile) *[]uint32 { return &r.Tapes.Faults },
		func(r *ReplayFile) *[]uint32 { return &r.Tapes.Workload },
		func(r *ReplayFile) *[]uint32 { return &r.Tapes.Sched },
	}
	clone := func(r *ReplayFile) *ReplayFile {
		c := *r
		c.Tapes.Workload = append([]uint32(nil), r.Tapes.Workload...)
		c.Tapes.Sched = append([]uint32(nil), r.Tapes.Sched...)
		c.Tapes.Faults = append([]uint32(nil), r.Tapes.Faults...)
		return &c
	}
	improved := true
	for pass := 0; improved && pass < 4; pass++ {
		improved = false
		for _, get := range tapes {
			// 1. truncate (an exhausted tape yields zeros)
			for {
				t := *get(rf)
				if len(t) == 0 {
					break
				}
				c := clone(rf)
				*get(c) = (*get(c))[:len(t)/2]
				if same(c) {
					*rf = *c
					improved = true
					continue
				}
				break
			}
			// 2. zero chunks, then delete chunks
			for _, mode := range []string{"zero", "delete", "halve"} {
				for size := len(*get(rf)) / 2; size >= 1; size /= 2 {
					for i := 0; i+size <= len(*get(rf)); {
						if tries >= maxTries || time.Now().After(deadline) {
							return
						}
						c := clone(rf)
						t := get(c)
						changed := false
						switch mode {
						case "zero":
							for j := i; j < i+size; j++ {
								if (*t)[j] != 0 {
									(*t)[j] = 0
									changed = true
								}
							}
						case "delete":
							*t = append((*t)[:i], (*t)[i+size:]...)
							changed = true
						case "halve":
							for j := i; j < i+size; j++ {
								if (*t)[j] > 1 {
									(*t)[j] /= 2
									changed = true
								}
							}
						}
						if changed && same(c) {
							*rf = *c
							improved = true
							if mode != "delete" {
								i += size
							}
						} else {
							i += size
						}
					}
					if size > 64 && mode != "zero" {
						// large tapes: only coarse chunks for the expensive modes
						if size < len(*get(rf))/16 {
							break
						}
					}
				}
			}
		}
	}
	return
}

func nonZero(t []uint32) int {
	n := 0
	for _, v := range t {
		if v != 0 {
			n++
		}
	}
	return n
}

func check(id, tier string) int {
	cfg := findProp(id)
	if cfg == nil {
		infra("unknown property %s", id)
	}
	tc := cfg.Quick
	if tier == "thorough" {
		tc = cfg.Thorough
	}
	if v := os.Getenv("VERIF_NSEEDS"); v != "" {
		if k, err := strconv.Atoi(v); err == nil {
			tc.Seeds = k
		}
	}
	if v := os.Getenv("VERIF_SECS"); v != "" {
		if k, err := strconv.Atoi(v); err == nil {
			tc.Secs = k
		}
	}
	base := uint64(1)
	if v := os.Getenv("VERIF_SEED"); v != "" {
		if k, err := strconv.ParseUint(v, 10, 64); err == nil {
			base = k
		} else if k2, err2 := strconv.ParseInt(v, 10, 64); err2 == nil {
			base = uint64(k2)
		}
	}
	t0 := time.Now()
	known := loadKnown()
	scratch, bin := prepare(id)
	defer cleanup(scratch)
	os.MkdirAll(filepath.Join(scratch, "tmp"), 0o755)

	agg := &aggregate{sigs: map[string]bool{}, faults: map[string]int{}, probes: map[string]int{}, strat: map[string]int{}, knownHits: map[string]int{}}
	deadline := time.Now().Add(time.Duration(tc.Secs) * time.Second)
	seedBase := base * 1_000_000
	var mu sync.Mutex
	nextSeed := seedBase
	endSeed := seedBase + uint64(tc.Seeds)
	var infraErr error
	stop := false
	var wg sync.WaitGroup
	nw := workers()
	if tc.Workers > 0 && tc.Workers < nw {
		nw = tc.Workers
	}
	runStart := time.Now()
	for w := 0; w < nw; w++ {
		wg.Add(1)
		go func(wid int) {
			defer wg.Done()
			for {
				mu.Lock()
				if stop || infraErr != nil || nextSeed >= endSeed || time.Now().After(deadline) {
					mu.Unlock()
					return
				}
				s0 := nextSeed
				n := tc.Batch
				if uint64(n) > endSeed-s0 {
					n = int(endSeed - s0)
				}
				nextSeed += uint64(n)
				mu.Unlock()
				cur := s0
				for cur < s0+uint64(n) {
					nx, err := runWorker(bin, scratch, id, tier, cur, int(s0+uint64(n)-cur), deadline, wid, func(r *Result) {
						agg.add(r, known)
					})
					if err != nil {
						mu.Lock()
						if infraErr == nil {
							infraErr = err
						}
						mu.Unlock()
						return
					}
					if nx <= cur {
						// deadline hit before any seed ran
						return
					}
					cur = nx
					agg.mu.Lock()
					nv := len(agg.viol)
					agg.mu.Unlock()
					if nv >= 3 {
						mu.Lock()
						stop = true
						mu.Unlock()
						return
					}
					if time.Now().After(deadline) {
						return
					}
				}
			}
		}(w)
	}
	wg.Wait()
	runWall := time.Since(runStart).Seconds()
	if infraErr != nil {
		fmt.Fprintf(os.Stderr, "verif: %v\n", infraErr)
		cleanup(scratch)
		os.Exit(2)
	}
	if agg.runs == 0 {
		infra("no simulation ran")
	}

	exit := 0
	// Known findings.
	for _, k := range known {
		if k.Property == id && k.Status == "open" && agg.knownHits[k.ID] > 0 {
			fmt.Printf("KNOWN-FINDING: property=%s %s (%s; hit by %d runs)\n", id, k.What, k.ID, agg.knownHits[k.ID])
		}
	}
	shrinkInfo := map[string]int{}
	var violationLines []string
	if len(agg.viol) > 0 {
		sort.Slice(agg.viol, func(i, j int) bool { return agg.viol[i].Seed < agg.viol[j].Seed })
		// Report distinct (class, clause) pairs, first seed of each.
		seen := map[string]bool{}
		for _, v := range agg.viol {
			key := v.Class + "/" + v.Clause
			if seen[key] {
				continue
			}
			seen[key] = true
			if v.Class == "fatal" {
				// Already confirmed by re-running the seed in a fresh process;
				// the seed is the replay (generation is a pure function of it).
				rf := &ReplayFile{Prop: id, Seed: v.Seed, Tier: tier, Class: v.Class, Clause: v.Clause, Detail: v.Detail}
				os.MkdirAll(filepath.Join(verifDir, "replays"), 0o755)
				rp := filepath.Join(verifDir, "replays", fmt.Sprintf("%s-%d.json", id, v.Seed))
				b, _ := json.MarshalIndent(rf, "", " ")
				os.WriteFile(rp, b, 0o644)
				fmt.Printf("violation: property=%s seed=%d class=fatal\n  %s\n", id, v.Seed, strings.ReplaceAll(tail(rf.Detail, 1500), "\n", "\n  "))
				violationLines = append(violationLines, fmt.Sprintf("VIOLATION property=%s replay=%s", id, rp))
				exit = 1
				continue
			}
			if v.Tapes == nil {
				infra("violation without tapes (seed %d)", v.Seed)
			}
			rf := &ReplayFile{Prop: id, Seed: v.Seed, Tier: tier, Class: v.Class, Clause: v.Clause, Detail: v.Detail, Tapes: *v.Tapes, Case: v.Case}
			// The violation must replay before it is reported.
			r0, err := runReplay(bin, scratch, rf, false)
			if err != nil {
				infra("replaying seed %d: %v", v.Seed, err)
			}
			if r0.OK || r0.Class != v.Class || r0.Clause != v.Clause {
				infra("violation of seed %d (%s/%s: %s) did not replay (replay gave ok=%v %s/%s): determinism bug in the harness, not reported as a violation",
					v.Seed, v.Class, v.Clause, v.Detail, r0.OK, r0.Class, r0.Clause)
			}
			before := len(rf.Tapes.Workload) + len(rf.Tapes.Sched) + len(rf.Tapes.Faults)
			budget := 60 * time.Second
			if tier == "thorough" {
				budget = 240 * time.Second
			}
			tries := shrink(bin, scratch, rf, budget, 2000)
			after := len(rf.Tapes.Workload) + len(rf.Tapes.Sched) + len(rf.Tapes.Faults)
			rf.Shrink = map[string]int{"tries": tries, "tape_len_before": before, "tape_len_after": after,
				"nonzero_sched": nonZero(rf.Tapes.Sched), "nonzero_workload": nonZero(rf.Tapes.Workload), "nonzero_faults": nonZero(rf.Tapes.Faults)}
			shrinkInfo = rf.Shrink
			// Final replay in a fresh process with the trace.
			rfin, err := runReplay(bin, scratch, rf, true)
			if err != nil || rfin.OK {
				infra("minimised replay of seed %d does not fail (err=%v)", v.Seed, err)
			}
			rf.Detail, rf.Case, rf.Trace = rfin.Detail, rfin.Case, rfin.Trace
			if rfin.Stack != "" {
				rf.Detail += "\n" + rfin.Stack
			}
			// A minimised case that matches a known finding is that finding.
			rfin.Prop = id
			if k := matchKnown(known, rfin); k != nil {
				fmt.Printf("KNOWN-FINDING: property=%s %s (%s; seed %d after minimisation)\n", id, k.What, k.ID, v.Seed)
				continue
			}
			os.MkdirAll(filepath.Join(verifDir, "replays"), 0o755)
			rp := filepath.Join(verifDir, "replays", fmt.Sprintf("%s-%d.json", id, v.Seed))
			b, _ := json.MarshalIndent(rf, "", " ")
			os.WriteFile(rp, b, 0o644)
			fmt.Printf("violation: property=%s seed=%d class=%s clause=%s\n  %s\n", id, v.Seed, rf.Class, rf.Clause, strings.ReplaceAll(tail(rf.Detail, 3000), "\n", "\n  "))
			violationLines = append(violationLines, fmt.Sprintf("VIOLATION property=%s replay=%s", id, rp))
			exit = 1
		}
	}
	writeEvidence(cfg, tier, base, agg, time.Since(t0).Seconds(), runWall, len(violationLines), shrinkInfo)
	for _, l := range violationLines {
		fmt.Println(l)
	}
	if exit == 0 {
		fmt.Printf("ok property=%s tier=%s runs=%d distinct=%d steps=%d wall=%.0fs\n", id, tier, agg.runs, agg.nontriv, agg.steps, time.Since(t0).Seconds())
	}
	return exit
}

func writeEvidence(cfg *propCfg, tier string, seed uint64, a *aggregate, wall, runWall float64, nviol int, shrinkInfo map[string]int) {
	samples := make([]any, 0, len(a.samples))
	for _, s := range a.samples {
		samples = append(samples, s)
	}
	if len(samples) == 0 {
		samples = append(samples, "no non-trivial sample recorded")
	}
	cov := map[string]any{
		"evaluations":         a.runs,
		"distinct_nontrivial": a.nontriv,
		"rule":                cfg.Rule,
		"samples":             samples,
		"steps":               a.steps,
		"sim_time_s":          float64(a.simNS) / 1e9,
		"runs_per_hour":       int(float64(a.runs) / runWall * 3600),
		"seeds":               map[string]uint64{"first": a.firstSeed, "last": a.lastSeed},
		"faults_fired":        a.faults,
		"probes":              a.probes,
		"strategy_histogram":  a.strat,
		"components":          map[string]any{"real": cfg.Real, "stub": cfg.Stub},
		"known_findings_hit":  a.knownHits,
		"workers":             workers(),
	}
	if a.sub > 0 {
		cov["sub_evaluations"] = a.sub
	}
	if len(shrinkInfo) > 0 {
		cov["shrink"] = shrinkInfo
	}
	ev := map[string]any{
		"property_id": cfg.ID,
		"tier":        tier,
		"seed":        seed,
		"level":       cfg.Level,
		"coverage":    cov,
		"assumptions": cfg.Assumptions,
		"wall_s":      wall,
		"violations":  nviol,
	}
	os.MkdirAll(filepath.Join(verifDir, "evidence"), 0o755)
	b, _ := json.MarshalIndent(ev, "", " ")
	if err := os.WriteFile(filepath.Join(verifDir, "evidence", cfg.ID+".json"), b, 0o644); err != nil {
		infra("writing evidence: %v", err)
	}
}

func replay(path string) int {
	b, err := os.ReadFile(path)
	if err != nil {
		infra("%v", err)
	}
	var rf ReplayFile
	if err := json.Unmarshal(b, &rf); err != nil {
		infra("bad replay file: %v", err)
	}
	scratch, bin := prepare(rf.Prop + "-replay")
	defer cleanup(scratch)
	os.MkdirAll(filepath.Join(scratch, "tmp"), 0o755)
	if rf.Class == "fatal" {
		if confirmFatal(bin, scratch, rf.Prop, rf.Tier, rf.Seed) {
			fmt.Printf("replay: seed %d still dies with a runtime fatal error\nVIOLATION property=%s replay=%s\n", rf.Seed, rf.Prop, path)
			return 1
		}
		fmt.Printf("replay of %s: property held (recorded: fatal)\n", path)
		return 0
	}
	r, err := runReplay(bin, scratch, &rf, true)
	if err != nil {
		infra("%v", err)
	}
	if r.OK {
		fmt.Printf("replay of %s: property held (recorded: %s/%s)\n", path, rf.Class, rf.Clause)
		return 0
	}
	fmt.Printf("replay: class=%s clause=%s\n  %s\n", r.Class, r.Clause, strings.ReplaceAll(tail(r.Detail, 3000), "\n", "\n  "))
	same := r.Class == rf.Class && r.Clause == rf.Clause
	fmt.Printf("same violation as recorded: %v\n", same)
	fmt.Printf("VIOLATION property=%s replay=%s\n", rf.Prop, path)
	return 1
}

func main() {
	if len(os.Args) < 2 {
		infra("usage: verif check <id> --tier quick|thorough | replay <file> | selftest ...")
	}
	switch os.Args[1] {
	case "check":
		fs := flag.NewFlagSet("check", flag.ExitOnError)
		tier := fs.String("tier", "", "quick or thorough")
		if len(os.Args) < 3 {
			infra("usage: verif check <id> --tier quick|thorough")
		}
		id := os.Args[2]
		fs.Parse(os.Args[3:])
		if *tier == "" {
			*tier = os.Getenv("VERIF_TIER")
		}
		if *tier == "" {
			*tier = "quick"
		}
		os.Exit(check(id, *tier))
	case "replay":
		if len(os.Args) < 3 {
			infra("usage: verif replay <file>")
		}
		os.Exit(replay(os.Args[2]))
	case "selftest":
		os.Exit(selftest(os.Args[2:]))
	case "build":
		// development helper: build the instrumented harness and keep it
		scratch, _ := prepare("dev")
		os.MkdirAll(filepath.Join(scratch, "tmp"), 0o755)
		fmt.Println(scratch)
	default:
		infra("unknown command %s", os.Args[1])
	}
}
