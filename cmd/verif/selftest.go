package main

import (
	"fmt"
	"os"
	"os/exec"
	"path/filepath"
	"strings"
	"strconv"
	"sync"
)

// selftest determinism [ids...]: run the same seeds several times in
// separate processes at different GOMAXPROCS and worker counts and require
// identical event-log hashes.
func selftest(args []string) int {
	if len(args) == 0 {
		infra("usage: verif selftest determinism [ids...]")
	}
	switch args[0] {
	case "simnet":
		// conformance of the simulated socket namespace with real unix sockets
		scratch, bin := prepare("selftest")
		defer cleanup(scratch)
		cmd := exec.Command(bin, "-test.run", "^TestSimnetConformance$", "-test.v")
		cmd.Env = append(os.Environ(), "VERIF_SIMNET=1")
		out, err := cmd.CombinedOutput()
		fmt.Print(string(out))
		if err != nil {
			return 2
		}
		return 0
	case "noop":
		// The instrumented tree, with no simulation active, must still pass the
		// repository's own tests of the instrumented packages: the
		// instrumentation changes nothing when it is off.
		scratch, _ := prepare("selftest")
		defer cleanup(scratch)
		pkgs := []string{"./pkg/eval/...", "./pkg/cli/...", "./pkg/edit/highlight/...", "./pkg/daemon/...", "./pkg/rpc/...", "./pkg/store/...", "./pkg/lsp/..."}
		args := append([]string{"test", "-tags", "verif", "-vet=off", "-count=1", "-timeout", "20m"}, pkgs...)
		cmd := exec.Command(goBin(), args...)
		cmd.Dir = filepath.Join(scratch, "repo")
		cmd.Env = goEnv()
		out, err := cmd.CombinedOutput()
		lines := strings.Split(string(out), "\n")
		for _, l := range lines {
			if !strings.HasPrefix(l, "ok ") && !strings.Contains(l, "no test files") && l != "" {
				fmt.Println(l)
			}
		}
		if err != nil {
			fmt.Println("selftest noop: FAILED")
			return 2
		}
		fmt.Println("selftest noop: the repository's tests pass on the instrumented tree")
		return 0
	case "determinism":
		ids := args[1:]
		if len(ids) == 0 {
			for _, p := range propCfgs {
				if p.SimEngine != "" {
					ids = append(ids, p.ID)
				}
			}
		}
		scratch, bin := prepare("selftest")
		defer cleanup(scratch)
		os.MkdirAll(filepath.Join(scratch, "tmp"), 0o755)
		nseeds := 200
		if v := os.Getenv("VERIF_NSEEDS"); v != "" {
			nseeds, _ = strconv.Atoi(v)
		}
		bad := 0
		for _, id := range ids {
			type key struct{ seed uint64 }
			ref := map[uint64]string{}
			var mu sync.Mutex
			mismatch := 0
			configs := []struct {
				gmp     string
				workers int
			}{{"1", 1}, {"1", 16}, {"4", 16}, {"16", 16}, {"2", 8}, {"16", 1}}
			for ci, c := range configs {
				var wg sync.WaitGroup
				per := (nseeds + c.workers - 1) / c.workers
				for w := 0; w < c.workers; w++ {
					s0 := uint64(7_000_000 + w*per)
					n := per
					wg.Add(1)
					go func(w int) {
						defer wg.Done()
						os.Setenv("VERIF_DUMMY", "")
						cur := s0
						for cur < s0+uint64(n) {
							nx, err := runWorkerEnv(bin, scratch, id, "quick", cur, int(s0+uint64(n)-cur), ci*100+w, []string{"GOMAXPROCS=" + c.gmp}, func(r *Result) {
								mu.Lock()
								h := r.Hash + "/" + strconv.Itoa(r.Steps) + "/" + fmt.Sprint(r.OK)
								if prev, ok := ref[r.Seed]; ok {
									if prev != h {
										mismatch++
										fmt.Printf("NONDETERMINISM property=%s seed=%d: %s vs %s (GOMAXPROCS=%s workers=%d)\n", id, r.Seed, prev, h, c.gmp, c.workers)
									}
								} else {
									ref[r.Seed] = h
								}
								mu.Unlock()
							})
							if err != nil {
								infra("%v", err)
							}
							if nx <= cur {
								break
							}
							cur = nx
						}
					}(w)
				}
				wg.Wait()
			}
			fmt.Printf("determinism property=%s seeds=%d configs=%d mismatches=%d\n", id, len(ref), len(configs), mismatch)
			bad += mismatch
		}
		if bad > 0 {
			return 2
		}
		return 0
	}
	infra("unknown selftest %s", args[0])
	return 2
}
