package main

var simgoAssumptions = []string{
	"goroutines of the instrumented packages are serialised: exactly one runs between two scheduler barriers (testing/synctest quiescence)",
	"un-instrumented code (standard library, third-party modules) runs atomically between two scheduling points of its caller",
	"every schedule the simulator produces is one the Go runtime could produce; the converse is sampled, not enumerated",
	"kernel pipes are real; their capacity is a per-run knob (F_SETPIPE_SZ), and a write is attempted only when poll(2) reports the descriptor writable",
	"data races are decided by the simulator's vector-clock happens-before monitor on designated state (fields of the shared structs, maps, designated slice elements, variables captured by function literals), not by the Go race detector, which cannot see a race under a serialising scheduler; undesignated memory is outside what the check sees",
}

var propCfgs = []*propCfg{
	{
		ID: "C18", Level: "exploration", SimEngine: "simgo",
		Quick:       tierCfg{Seeds: 6000, Secs: 70, Batch: 100},
		Thorough:    tierCfg{Seeds: 400000, Secs: 900, Batch: 250},
		Rule:        "one evaluation = one seeded simulation of a generated 2..6-stage pipeline (producers, filters, early-exit consumers, throwers; value and byte payloads beyond the 32-slot channel and the per-run pipe capacity) under one seeded schedule; distinct = distinct interleaving signature (hash of (goroutine id, site) over all steps with more than one runnable goroutine); non-trivial = at least one step had a real scheduling choice",
		Real:        []string{"pkg/eval pipelineOp.exec, ports, valueOutput.Put, IterateInputs, linesToChan, PipePort/CapturePort, exception composition, builtins each/range/put/echo/take/drop/from-lines/to-lines/only-bytes/only-values/count/fail/nop, closures, fn", "Go runtime channels, WaitGroup, real kernel pipes"},
		Stub:        []string{"harness stages vsrc/vrelay/vsink/vfailafter (workload and recording only)"},
		Assumptions: simgoAssumptions,
	},
	{
		ID: "C19", Level: "fault_enumeration", SimEngine: "simgo",
		Quick:       tierCfg{Seeds: 400, Secs: 80, Batch: 10},
		Thorough:    tierCfg{Seeds: 40000, Secs: 900, Batch: 20},
		Rule:        "one evaluation = one corpus program (loops, recursion, pipelines, each, peach bounded/unbounded/direct Go callable, run-parallel, sleep, try/finally, capture, background job) with tape-chosen sizes, in one of three fault modes: enumerate (reference run, then one simulation per scheduler step k with the cancellation injected at k, under the non-preemptive schedule and seeded random ones; counted in sub_evaluations), synchronous in-program interrupt under a seeded schedule, one random-step interrupt under a seeded schedule; distinct = distinct combined interleaving+fault signature; non-trivial = an interrupt actually fired",
		Real:        []string{"pkg/eval: chunkOp/pipelineOp cancellation checks, peach (x/sync/semaphore), each, run-parallel, sleep (fake clock via real time.After), try/finally, output capture, background jobs, EvalCfg.Interrupts"},
		Stub:        []string{"signal delivery: the context is cancelled by the scheduler at a chosen step or by a harness builtin, instead of by SIGINT", "harness builtins vt/vw/vintr (tick, timed work item, synchronous interrupt)"},
		Assumptions: simgoAssumptions,
	},
	{
		ID: "C20", Level: "exploration", SimEngine: "simgo",
		Quick:       tierCfg{Seeds: 5000, Secs: 70, Batch: 100},
		Thorough:    tierCfg{Seeds: 400000, Secs: 900, Batch: 200},
		Rule:        "one evaluation = one generated case (peach with bound 1..8/+inf/big-int/default, Go-callable or closure callback, list or piped inputs of 0..12 (thorough 0..300) items; or run-parallel of 0..12 functions) with a tape-generated behaviour table per input (fake delay, value and byte outputs, outcome ok/continue/break/fail) under one seeded schedule; bound-1 cases are re-run with each on the same table (sub_evaluations counts simulations); distinct = distinct interleaving signature; non-trivial = at least one scheduling choice",
		Real:        []string{"pkg/eval peach, each, runParallel, x/sync/semaphore, value/byte output ports, exception aggregation (errutil.Multi, MakePipelineError)"},
		Stub:        []string{"harness callback vcb (behaviour table, start/end recording, fake-time delay)"},
		Assumptions: simgoAssumptions,
	},
	{
		ID: "C40", Level: "exploration", SimEngine: "simgo",
		Quick:       tierCfg{Seeds: 1500, Secs: 70, Batch: 25},
		Thorough:    tierCfg{Seeds: 100000, Secs: 900, Batch: 50},
		Rule:        "one evaluation = one generated program (1..3 snippets: pipelines with early exit and failing stages, redirections > >> < <> to temp files, fd duplication/closing, output captures, peach, run-parallel, try/catch) evaluated 7 (thorough 21) times on one interpreter in one seeded simulation with the garbage collector off, optionally with a context cancellation at a tape-chosen step; after every evaluation /proc/self/fd (numbers and link targets) must equal the baseline taken after the first one, and at the end no goroutine may remain; distinct = distinct interleaving+fault signature; non-trivial = at least one scheduling choice",
		Real:        []string{"pkg/eval pipelineOp.exec, formOwnedPort.close, redirOp, PipePort/CapturePort/ValueCapturePort, IterateInputs, peach, run-parallel, exception paths, interrupts; real files and kernel pipes"},
		Stub:        []string{"signal delivery (context cancelled by the scheduler at a chosen step)"},
		Assumptions: append([]string{"the garbage collector is disabled during a run so that os.File finalizers cannot close a leaked descriptor"}, simgoAssumptions...),
	},
	{
		ID: "C24", Level: "exploration",
		Quick:       tierCfg{Seeds: 4000, Secs: 60, Batch: 100},
		Thorough:    tierCfg{Seeds: 150000, Secs: 600, Batch: 200},
		Rule:        "one evaluation = one generated operation history (<= 60, thorough <= 300 operations: add with shared-prefix, empty and binary texts; delete of present and absent numbers; get; next sequence; range listing with bounds below/inside/above and unbounded; next/previous search with prefixes; directory visit with factors, directory delete, listing with blacklist) run on a fresh database against the sequential model, then closed, reopened and compared again; this is the fault-free configuration of the store simulation (C25 is the crash configuration); distinct = distinct history; non-trivial = every history (at least one operation)",
		Real:        []string{"pkg/store (NewStore, cmd.go, dir.go), go.etcd.io/bbolt v1.3.10, the real file system (tmpfs)"},
		Stub:        []string{},
		Assumptions: []string{"operations are issued sequentially by one client (concurrent clients are C26)", "directory scores are compared with a relative tolerance that grows with the number of visits because the store keeps 7 significant digits", "negative bounds other than upto=-1 (unbounded) are not generated: no caller passes them"},
	},
	{
		ID: "C25", Level: "fault_enumeration",
		Quick:       tierCfg{Seeds: 600, Secs: 70, Batch: 10},
		Thorough:    tierCfg{Seeds: 40000, Secs: 900, Batch: 20},
		Rule:        "one evaluation = one generated mutation-heavy history (<= 14, thorough <= 40 operations) run once with every pwrite/truncate of bbolt logged through the simulated-disk seam; then EVERY crash image of that run is materialised and reopened with the real store: the file right after each logged event (including database creation and the opening transaction) and every page-aligned tear of each multi-page write (sub_evaluations = images); each image must open, equal the model after all acknowledged operations (the one in flight all-or-nothing), and hand out a larger sequence number; a tape-chosen sixth of the images is continued with the rest of the history, and (thorough) the continuation's crash images are enumerated again; distinct = distinct history; exhaustive over crash points of each history, sampled over histories",
		Real:        []string{"pkg/store, go.etcd.io/bbolt v1.3.10 (scratch copy with a two-line seam routing db.ops.writeAt and db.file.Truncate through a recorder), real files on tmpfs, real flock/mmap"},
		Stub:        []string{"the crash: instead of SIGKILL, the file image a kill would leave is rebuilt from the write log (checked on every run to reproduce the real file byte for byte)"},
		Assumptions: []string{"a killed process loses nothing that a completed pwrite put into the page cache (process kill, not power loss)", "a pwrite interrupted by SIGKILL leaves a page-aligned prefix of its data", "bbolt mutates the database file only through db.ops.writeAt and db.file.Truncate (self-checked: the log must reproduce the file)"},
	},
	{
		ID: "C29", Level: "exploration",
		Quick:    tierCfg{Seeds: 6000, Secs: 60, Batch: 200},
		Thorough: tierCfg{Seeds: 300000, Secs: 600, Batch: 500},
		Rule:     "one evaluation = one seeded interleaving, at operation granularity, of up to 3 sessions (hybrid stores over one real database file) adding commands, an outside process adding commands directly, sessions opening cursors (10 prefixes, with and without de-duplication) and single Prev/Next steps of up to 4 open walks, so that other parties' additions land between the steps of a walk; every Get after every move and every AllCmds is compared with the per-session view model; distinct = distinct event sequence; non-trivial = at least one cursor was opened",
		Real:     []string{"pkg/cli/histutil hybridStore, dbStore, memStore, dedupCursor; pkg/store + bbolt on a tmpfs file as the shared database"},
		Stub:     []string{},
		Assumptions: []string{"sessions are interleaved at whole-operation granularity (each store call is sequential code; concurrent daemon access is C26)", "a cursor's view of the session's own additions is the one at cursor creation"},
	},
	{
		ID: "C31", Level: "exploration",
		Quick:    tierCfg{Seeds: 20000, Secs: 60, Batch: 500},
		Thorough: tierCfg{Seeds: 1500000, Secs: 600, Batch: 2000},
		Rule:     "one evaluation = one generated byte stream with a simulated arrival time per byte on the fake clock (gaps drawn at 0, well below, just under and just over the 10 ms sequence time-outs, tens of ms, and multi-second stalls): either escape soup (ESC, CSI/SS3 introducers, digits, separators, mouse and paste terminators, truncated sequences, high and invalid bytes) or printable UTF-8 text with intra-character gaps below the UTF-8 time-out; the real decoder is called until the stream ends; distinct = distinct (bytes, gaps) stream; non-trivial = non-empty stream",
		Real:     []string{"pkg/cli/term readEvent (escape-sequence state machine), readRune (UTF-8 assembly), parseCSI, key tables"},
		Stub:     []string{"the terminal: a byte source implementing the decoder's existing byteReaderWithTimeout interface, delivering bytes at tape-chosen fake times (the real poll(2)-based file reader is not exercised)"},
		Assumptions: []string{"time is the fake clock of a testing/synctest bubble; gaps are never exactly equal to a time-out", "the poll/EINTR loop of the real file reader (bReader) is outside this check"},
	},
	{
		ID: "C32", Level: "exploration", SimEngine: "simgo",
		Quick:    tierCfg{Seeds: 8000, Secs: 60, Batch: 200},
		Thorough: tierCfg{Seeds: 500000, Secs: 600, Batch: 500},
		Rule:     "one evaluation = the real editor loop plus 1..4 producer goroutines issuing tape-generated sequences of Input (unique events; some handlers request redraws or return from inside the loop), Redraw(full/partial) and Return, and a closer, under one seeded schedule; flood cases send several hundred events to fill the 128-slot buffer; oracle over the recorded invoke/complete steps of every call and callback; distinct = distinct interleaving signature; non-trivial = at least one scheduling choice",
		Real:     []string{"pkg/cli loop: Run, Input, Redraw, Return, HasReturned, extractRedrawFull (via an export shim generated into the scratch copy)"},
		Stub:     []string{"the handle and redraw callbacks (harness functions that record and yield)", "terminal, editor widgets: not involved"},
		Assumptions: simgoAssumptions,
	},
	{
		ID: "C30", Level: "exploration", SimEngine: "simgo",
		Quick:    tierCfg{Seeds: 3000, Secs: 60, Batch: 50},
		Thorough: tierCfg{Seeds: 200000, Secs: 600, Batch: 100},
		Rule:     "one evaluation = one simulated editing session: a tape-generated sequence of 1..25 (thorough 1..80) codes (valid programs, prefixes, one-byte deletions, metacharacter soup, invalid UTF-8, revisited earlier codes) passed to the real Highlighter.Get, with command lookups delayed by tape-chosen fake times below / just under / just over / above the 10 ms blocking window, the editor re-Getting the current code on every late-update signal, and a concurrent invalidator; distinct = distinct interleaving signature; non-trivial = at least one scheduling choice",
		Real:     []string{"pkg/edit/highlight Highlighter.Get/LateUpdates/InvalidateCache, highlight() incl. its select on time.After, getRegions/fixRegions, segment assembly; pkg/parse; eval.CheckTree as the Check callback"},
		Stub:     []string{"Config.HasCommand (harness lookup with a fake delay per call)", "the editor (a task that follows the application's Get / late-update protocol)"},
		Assumptions: simgoAssumptions,
	},
	{
		ID: "C26", Level: "exploration", SimEngine: "simgo",
		Quick:    tierCfg{Seeds: 1200, Secs: 80, Batch: 20},
		Thorough: tierCfg{Seeds: 60000, Secs: 900, Batch: 40},
		Rule:     "one evaluation = one real daemon (Serve loop, rpc server, gob, store, bbolt) and 2..8 client goroutines (own connections, or one shared client object after its first successful request) issuing 3..12 operations each (add with unique text, delete, get, next sequence, listing, next/previous search; at most 60 per history) over the simulated socket namespace under one seeded schedule; two configurations run separately: fault-free (every call must succeed) and fault-injecting (one connection is dropped at a tape-chosen step; failed operations are indeterminate: may have taken effect at most once, or not at all); the history stamped with scheduler steps is checked with porcupine against the sequential store model, plus direct uniqueness/lost/duplicate checks on the final listing; distinct = distinct interleaving+fault signature; non-trivial = at least one scheduling choice",
		Real:     []string{"pkg/daemon Serve, service, client (lazy dial, retry on shutdown); pkg/rpc client and server (pending table, per-request goroutines, sending mutex), encoding/gob; pkg/store + bbolt on tmpfs"},
		Stub:     []string{"unix sockets: simnet (marker file + net.Pipe connections with scheduling points at every read/write)", "signals: ServeOpts.Signals channel never fires in this check"},
		Assumptions: append([]string{"linearizability is decided by porcupine v1.3.0 with a 30 s timeout; a timeout is counted as inconclusive, never reported"}, simgoAssumptions...),
	},
	{
		ID: "C27", Level: "exploration", SimEngine: "simgo",
		Quick:    tierCfg{Seeds: 1500, Secs: 80, Batch: 20},
		Thorough: tierCfg{Seeds: 80000, Secs: 900, Batch: 40},
		Rule:     "one evaluation = one activation scenario under one seeded schedule: initial socket state absent / stale (marker of a dead listener) / live current daemon with clients / live outdated daemon; 1..4 shells that Activate at tape-chosen fake times, issue a request, hold the client for a fake duration and close; daemons are started through the startProcess seam as simulated processes after a fake delay (about 0, below, above the 1 s spawn time-out); optional spawn failure and SIGTERM to a daemon; invariants over the recorded socket-namespace and process events; distinct = distinct interleaving+fault signature; non-trivial = at least one scheduling choice",
		Real:     []string{"pkg/daemon Activate, detectDaemon, killDaemon, spawn (incl. fsutil.ClaimFile), Serve, client, service; pkg/rpc; pkg/store + bbolt including its real flock with the 1 s timeout (fake clock)"},
		Stub:     []string{"unix sockets and socket files: simnet marker files + net.Pipe (conformance with the kernel's error classification is self-tested)", "process creation: the startProcess seam starts daemon.Serve as a simulated process after a fake delay", "pids and signals: simulated process table (syscall.Getpid and Process.Signal routed to it)", "clock: fake (spawn/kill time-outs, bbolt lock retry)"},
		Assumptions: append([]string{"a simulated process exit closes its sockets like the kernel does; it does not unlink socket files"}, simgoAssumptions...),
	},
	{
		ID: "C39", Level: "exploration", SimEngine: "simgo",
		Quick:    tierCfg{Seeds: 2500, Secs: 80, Batch: 50},
		Thorough: tierCfg{Seeds: 150000, Secs: 900, Batch: 100},
		Rule:     "one evaluation = one interpreter used by 2..8 goroutines, each running 1..4 operations (Eval of programs that define fresh globals, refer to other goroutines' globals, read / re-declare / delete five pre-existing globals, import modules m1/m2/failing mbad from a library directory and contain peach / run-parallel / pipelines; Check of similar code; Call of a closure) under one seeded schedule; three oracles: engine verdicts (panic, deadlock, leak), a vector-clock happens-before monitor over designated interpreter state (Evaler fields declared under its mutex, every map of the instrumented packages, and every element of Ns.slots), and linearizability of the evaluations' observable outcomes (which names resolved, compile-time vs run-time failure, values read from re-declared globals, the namespace at the end) against the model 'global name -> value' (porcupine) plus 'a successfully imported module body runs once', 'a failing module is never imported successfully', 'no published definition is missing at the end' and 'a variable that resolved at compile time does not vanish at run time'; distinct = distinct interleaving signature; non-trivial = at least one scheduling choice",
		Real:     []string{"pkg/eval Evaler.Eval/Call/Check/CheckTree/ExtendGlobal, compile, use/useFromFile/evalModule, peach, run-parallel, pipelines, vars.PtrVar"},
		Stub:     []string{"harness builtin vtick (import-time side effect recorder)"},
		Assumptions: append([]string{"the race detector cannot be used under a serialising scheduler; data races are decided by the simulator's own happens-before monitor, on designated state only: all fields of the shared structs of the instrumented packages, all their maps, Ns.slots / Frame.ports elements and captured variables of function literals (all other memory is outside what this check sees)", "synchronisation invisible to the instrumentation could only add order; the designated state is not protected by un-instrumented primitives"}, simgoAssumptions...),
	},
	{
		ID: "C44", Level: "exploration", SimEngine: "simgo",
		Quick:    tierCfg{Seeds: 2500, Secs: 70, Batch: 50},
		Thorough: tierCfg{Seeds: 150000, Secs: 900, Batch: 100},
		Rule:     "one evaluation = one client session against the real language-server handler behind a real jsonrpc2 connection with the VSCode codec over a simulated byte transport: initialize, then 2..14 (thorough 2..40) messages (didOpen / full-text didChange with documents over ASCII, BMP and astral characters, LF/CR/CRLF endings, valid and invalid Elvish, invalid UTF-8; hover and completion at positions inside, at and beyond line ends, inside CRLF pairs, between surrogate halves and beyond the last line; hover on an unknown document), each message delivered in tape-chosen chunks with optional fake delays, requests pipelined or awaited, diagnostics goroutines scheduled by the simulator, optional disconnect at a tape-chosen byte; distinct = distinct interleaving+fault signature; non-trivial = at least one scheduling choice",
		Real:     []string{"pkg/lsp handler, server methods, updateDocument and its notification goroutine, walkString / position conversion; github.com/sourcegraph/jsonrpc2 connection and VSCodeObjectCodec; pkg/parse; pkg/edit/complete; pkg/mods/doc"},
		Stub:     []string{"stdin/stdout: a simulated byte transport (Program.Run's six lines wiring os.Stdin/os.Stdout into the same constructor are not exercised: a real descriptor would stall the bubble)", "the language client"},
		Assumptions: append([]string{"reference for positions: UTF-16 code units per line, CRLF counted as one line break; offsets between CR and LF are not character boundaries", "jsonrpc2 is un-instrumented: it runs atomically between the scheduling points of the transport and of pkg/lsp"}, simgoAssumptions...),
	},
}

func findProp(id string) *propCfg {
	for _, p := range propCfgs {
		if p.ID == id {
			return p
		}
	}
	return nil
}
