package main

var simgoAssumptions = []string{
	"goroutines of the instrumented packages are serialised: exactly one runs between two scheduler barriers (testing/synctest quiescence)",
	"un-instrumented code (standard library, third-party modules) runs atomically between two scheduling points of its caller",
	"every schedule the simulator produces is one the Go runtime could produce; the converse is sampled, not enumerated",
	"kernel pipes are real; their capacity is a per-run knob (F_SETPIPE_SZ), and a write is attempted only when poll(2) reports the descriptor writable",
}

var propCfgs = []*propCfg{
	{
		ID: "C18", Level: "exploration", SimEngine: "simgo",
		Quick:    tierCfg{Seeds: 6000, Secs: 70, Batch: 100},
		Thorough: tierCfg{Seeds: 400000, Secs: 900, Batch: 250},
		Rule: "one evaluation = one seeded simulation of a generated 2..6-stage pipeline (producers, filters, early-exit consumers, throwers; value and byte payloads beyond the 32-slot channel and the per-run pipe capacity) under one seeded schedule; distinct = distinct interleaving signature (hash of (goroutine id, site) over all steps with more than one runnable goroutine); non-trivial = at least one step had a real scheduling choice",
		Real: []string{"pkg/eval pipelineOp.exec, ports, valueOutput.Put, IterateInputs, linesToChan, PipePort/CapturePort, exception composition, builtins each/range/put/echo/take/drop/from-lines/to-lines/only-bytes/only-values/count/fail/nop, closures, fn", "Go runtime channels, WaitGroup, real kernel pipes"},
		Stub: []string{"harness stages vsrc/vrelay/vsink/vfailafter (workload and recording only)"},
		Assumptions: simgoAssumptions,
	},
	{
		ID: "C19", Level: "fault_enumeration", SimEngine: "simgo",
		Quick:    tierCfg{Seeds: 400, Secs: 80, Batch: 10},
		Thorough: tierCfg{Seeds: 40000, Secs: 900, Batch: 20},
		Rule: "one evaluation = one corpus program (loops, recursion, pipelines, each, peach bounded/unbounded/direct Go callable, run-parallel, sleep, try/finally, capture, background job) with tape-chosen sizes, in one of three fault modes: enumerate (reference run, then one simulation per scheduler step k with the cancellation injected at k, under the non-preemptive schedule and seeded random ones; counted in sub_evaluations), synchronous in-program interrupt under a seeded schedule, one random-step interrupt under a seeded schedule; distinct = distinct combined interleaving+fault signature; non-trivial = an interrupt actually fired",
		Real: []string{"pkg/eval: chunkOp/pipelineOp cancellation checks, peach (x/sync/semaphore), each, run-parallel, sleep (fake clock via real time.After), try/finally, output capture, background jobs, EvalCfg.Interrupts"},
		Stub: []string{"signal delivery: the context is cancelled by the scheduler at a chosen step or by a harness builtin, instead of by SIGINT", "harness builtins vt/vw/vintr (tick, timed work item, synchronous interrupt)"},
		Assumptions: simgoAssumptions,
	},
	{
		ID: "C20", Level: "exploration", SimEngine: "simgo",
		Quick:    tierCfg{Seeds: 5000, Secs: 70, Batch: 100},
		Thorough: tierCfg{Seeds: 400000, Secs: 900, Batch: 200},
		Rule: "one evaluation = one generated case (peach with bound 1..8/+inf/big-int/default, Go-callable or closure callback, list or piped inputs of 0..12 (thorough 0..300) items; or run-parallel of 0..12 functions) with a tape-generated behaviour table per input (fake delay, value and byte outputs, outcome ok/continue/break/fail) under one seeded schedule; bound-1 cases are re-run with each on the same table (sub_evaluations counts simulations); distinct = distinct interleaving signature; non-trivial = at least one scheduling choice",
		Real: []string{"pkg/eval peach, each, runParallel, x/sync/semaphore, value/byte output ports, exception aggregation (errutil.Multi, MakePipelineError)"},
		Stub: []string{"harness callback vcb (behaviour table, start/end recording, fake-time delay)"},
		Assumptions: simgoAssumptions,
	},
	{
		ID: "C40", Level: "exploration", SimEngine: "simgo",
		Quick:    tierCfg{Seeds: 1500, Secs: 70, Batch: 25},
		Thorough: tierCfg{Seeds: 100000, Secs: 900, Batch: 50},
		Rule: "one evaluation = one generated program (1..3 snippets: pipelines with early exit and failing stages, redirections > >> < <> to temp files, fd duplication/closing, output captures, peach, run-parallel, try/catch) evaluated 7 (thorough 21) times on one interpreter in one seeded simulation with the garbage collector off, optionally with a context cancellation at a tape-chosen step; after every evaluation /proc/self/fd (numbers and link targets) must equal the baseline taken after the first one, and at the end no goroutine may remain; distinct = distinct interleaving+fault signature; non-trivial = at least one scheduling choice",
		Real: []string{"pkg/eval pipelineOp.exec, formOwnedPort.close, redirOp, PipePort/CapturePort/ValueCapturePort, IterateInputs, peach, run-parallel, exception paths, interrupts; real files and kernel pipes"},
		Stub: []string{"signal delivery (context cancelled by the scheduler at a chosen step)"},
		Assumptions: append([]string{"the garbage collector is disabled during a run so that os.File finalizers cannot close a leaked descriptor"}, simgoAssumptions...),
	},
}

func findProp(id string) *propCfg {
	for _, p := range propCfgs {
		if p.ID == id {
			return p
		}
	}
	return nil
}
