package bbolt

// Simulated-disk seam added by /verif to a scratch copy of this module (never
// to the module cache): every pwrite and truncate bbolt issues on a database
// file passes through VerifDisk when it is set. db.go is patched in two places
// by the driver to route db.ops.writeAt and db.file.Truncate here.

// VerifDisk observes (and performs, by calling do) the file operations.
var VerifDisk interface {
	WriteAt(path string, b []byte, off int64, do func() (int, error)) (int, error)
	Truncate(path string, size int64, do func() error) error
}

func verifWrapWriteAt(db *DB, w func([]byte, int64) (int, error)) func([]byte, int64) (int, error) {
	return func(b []byte, off int64) (int, error) {
		if d := VerifDisk; d != nil {
			return d.WriteAt(db.path, b, off, func() (int, error) { return w(b, off) })
		}
		return w(b, off)
	}
}

func verifTruncate(db *DB, size int64) error {
	if d := VerifDisk; d != nil {
		return d.Truncate(db.path, size, func() error { return db.file.Truncate(size) })
	}
	return db.file.Truncate(size)
}
