package bbolt

import "time"

// VerifSleep, when set, replaces the sleep of the file-lock retry loop (the
// simulation harness sets it to an instrumented sleep on the fake clock).
var VerifSleep func(time.Duration)

func verifSleep(d time.Duration) {
	if f := VerifSleep; f != nil {
		f(d)
		return
	}
	time.Sleep(d)
}
