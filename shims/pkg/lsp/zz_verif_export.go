//go:build verif

package lsp

import (
	"context"
	"io"

	"github.com/sourcegraph/jsonrpc2"
	lsp "pkg.nimblebun.works/go-lsp"
)

// Export shim generated into the scratch copy by /verif (never committed to
// the repository).

// VerifServe does what Program.Run does, with the given byte transport in
// place of stdin/stdout: the real handler behind a real jsonrpc2 connection
// with the real VSCode codec. It returns the connection.
func VerifServe(ctx context.Context, rwc io.ReadWriteCloser) *jsonrpc2.Conn {
	s := newServer()
	return jsonrpc2.NewConn(ctx,
		jsonrpc2.NewBufferedStream(rwc, jsonrpc2.VSCodeObjectCodec{}),
		handler(s))
}

// VerifPositionToIdx / VerifPositionFromIdx expose the position conversion.
func VerifPositionToIdx(s string, line, char int) int {
	return lspPositionToIdx(s, lsp.Position{Line: line, Character: char})
}

func VerifPositionFromIdx(s string, idx int) (line, char int) {
	p := lspPositionFromIdx(s, idx)
	return p.Line, p.Character
}
