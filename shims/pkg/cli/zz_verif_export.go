//go:build verif

package cli

// Export shim generated into the scratch copy by /verif (never committed to
// the repository): gives the harness access to the unexported editor loop.

// VerifLoop wraps the editor's event loop.
type VerifLoop struct{ lp *loop }

// Redraw flags as passed to the redraw callback.
const (
	VerifFullRedraw  = uint(fullRedraw)
	VerifFinalRedraw = uint(finalRedraw)
)

func VerifNewLoop() *VerifLoop { return &VerifLoop{newLoop()} }

func (l *VerifLoop) HandleCb(cb func(any)) { l.lp.HandleCb(func(e event) { cb(e) }) }
func (l *VerifLoop) RedrawCb(cb func(uint)) {
	l.lp.RedrawCb(func(f redrawFlag) { cb(uint(f)) })
}
func (l *VerifLoop) Redraw(full bool)               { l.lp.Redraw(full) }
func (l *VerifLoop) Input(ev any)                   { l.lp.Input(ev) }
func (l *VerifLoop) Return(buffer string, err error) { l.lp.Return(buffer, err) }
func (l *VerifLoop) HasReturned() bool              { return l.lp.HasReturned() }
func (l *VerifLoop) Run() (string, error)           { return l.lp.Run() }
