//go:build verif && unix

package term

import "time"

// Export shim generated into the scratch copy by /verif (never committed to
// the repository): exposes the existing internal seam of the input reader,
// which already takes its byte source as an interface.

// VerifByteReader is the byte source interface of readEvent.
type VerifByteReader interface {
	ReadByteWithTimeout(timeout time.Duration) (byte, error)
}

// VerifReadEvent is readEvent.
func VerifReadEvent(rd VerifByteReader) (Event, error) { return readEvent(rd) }

// VerifReadRawEvent is what reader.ReadRawEvent does.
func VerifReadRawEvent(rd VerifByteReader) (Event, error) {
	r, err := readRune(rd, -1)
	return K(r), err
}

// VerifTimeouts returns the two timeouts of the decoder.
func VerifTimeouts() (keySeq, utf8Seq time.Duration) { return keySeqTimeout, utf8SeqTimeout }

// VerifErrTimeout is the error the real byte reader returns on a timeout.
var VerifErrTimeout = errTimeout
