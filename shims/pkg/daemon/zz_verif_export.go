//go:build verif

package daemon

import "os"

// Export shim generated into the scratch copy by /verif (never committed to
// the repository).

// VerifSetStartProcess points the existing startProcess seam (used by the
// repository's own tests too) at a simulated process table and returns a
// function restoring it.
func VerifSetStartProcess(f func(name string, argv []string, attr *os.ProcAttr) error) func() {
	old := startProcess
	startProcess = f
	return func() { startProcess = old }
}

// VerifConn returns the network connection of a client that has one (for
// connection-fault injection), or nil.
func VerifClientHasConn(c interface{ SockPath() string }) bool {
	cl, ok := c.(*client)
	return ok && cl.rpcClient != nil
}
