package h

import (
	"bytes"
	"errors"
	"fmt"
	"os"
	"path/filepath"
	"sort"
	"strings"
	"syscall"
	"time"

	"src.elv.sh/pkg/daemon"
	"src.elv.sh/pkg/daemon/daemondefs"
	"src.elv.sh/zzverif/simrt"
)

// ---- C27: daemon activation yields one live daemon per socket -------------------

func init() { props["C27"] = runC27 }

type c27shell struct {
	StartUS int64 `json:"start_us"`
	HoldUS  int64 `json:"hold_us"`
}

type c27stall struct {
	Site string `json:"site"`
	Nth  int    `json:"nth"`
	US   int64  `json:"us"`
}

type c27case struct {
	Stalls []c27stall `json:"stalls,omitempty"`
	Crowd  bool       `json:"crowd,omitempty"`
	// a signal sent by a shell to an (outdated) daemon takes effect this much
	// later: the daemon is stopped, swapped out or busy
	SigDelayUS int64 `json:"signal_takes_effect_after_us,omitempty"`
	Initial    string     `json:"initial"` // absent | stale | live | outdated
	Holders    int        `json:"initial_clients,omitempty"`
	HolderUS   int64      `json:"initial_clients_leave_after_us,omitempty"`
	Shells     []c27shell `json:"shells"`
	SpawnUS    []int64    `json:"spawn_delays_us"`
	SpawnFail  int        `json:"spawn_failure_index"` // -1: none
	SignalUS   int64      `json:"signal_after_us,omitempty"`
	Timeline   []string   `json:"timeline,omitempty"`
}

type c27ev struct {
	step int
	at   time.Duration
	kind string // serve-start | serve-exit | activate-ok | activate-err | hold | release | signalled | spawn
	proc int    // daemon pid or shell id
	arg  int
	msg  string
}

func runC27(c *Ctx) {
	w := c.T.Workload
	f := c.T.Faults
	cs := &c27case{SpawnFail: -1}
	c.Res.Case = cs
	cs.Initial = []string{"absent", "stale", "stale", "live", "outdated"}[w.Draw(5)]
	if cs.Initial == "live" || cs.Initial == "outdated" {
		cs.Holders = w.Range(1, 2)
		cs.HolderUS = int64(1 + 2*w.Draw(400000))
	}
	us := func(max int) int64 { return int64(1 + 2*w.Draw(max)) }
	nsh := w.Range(1, 4)
	for i := 0; i < nsh; i++ {
		sh := c27shell{HoldUS: us(300000)}
		switch w.Draw(4) {
		case 0:
			sh.StartUS = 0
		case 1:
			sh.StartUS = us(500)
		default:
			sh.StartUS = us(1500000)
		}
		cs.Shells = append(cs.Shells, sh)
	}
	for i := 0; i < 8; i++ {
		switch f.Draw(6) {
		case 0, 1, 2:
			cs.SpawnUS = append(cs.SpawnUS, int64(1+2*f.Draw(2000))) // about immediately
		case 3, 4:
			cs.SpawnUS = append(cs.SpawnUS, int64(10001+2*f.Draw(450000))) // well within the 1 s timeout
		default:
			cs.SpawnUS = append(cs.SpawnUS, int64(1100001+2*f.Draw(500000))) // later than the timeout
		}
	}
	if f.Chance(1, 10) {
		cs.SpawnFail = f.Draw(2)
	}
	if f.Chance(1, 6) {
		cs.SignalUS = int64(1 + 2*f.Draw(800000))
	}
	stallSites := []string{"fs.Remove", "fs.Remove", "fs.Lstat", "net.Dial", "net.Listen", "pkg/daemon/activate.go", "pkg/daemon/server.go", "call.DB.Update", "net.Write"}
	for n := f.Draw(3); n > 0; n-- {
		cs.Stalls = append(cs.Stalls, c27stall{
			Site: stallSites[f.Draw(len(stallSites))], Nth: f.Draw(4),
			US: []int64{201, 5001, 50001, 300001, 1200001}[f.Draw(5)]})
	}

	// Crowd mode (one run in twelve): a dozen shells start at the moment the
	// last client of a live daemon leaves, and the exiting daemon is slow at
	// removing its socket: connections keep arriving at a daemon that has
	// decided to exit.
	if w.Chance(1, 12) {
		cs.Crowd = true
		cs.Initial, cs.Holders = "live", 1
		cs.HolderUS = int64(20001 + 2*w.Draw(100000))
		n := w.Range(9, 14)
		cs.Shells = cs.Shells[:1]
		for i := 0; i < n; i++ {
			start := cs.HolderUS - 3000 - 500 + int64(w.Draw(4000))
			if start < 0 {
				start = 0
			}
			cs.Shells = append(cs.Shells, c27shell{StartUS: start, HoldUS: us(100000)})
		}
		if f.Chance(3, 4) {
			cs.Stalls = append(cs.Stalls, c27stall{Site: "fs.Remove", Nth: 0, US: []int64{5001, 100001, 300001}[f.Draw(3)]})
		}
	}

	if cs.Initial == "outdated" && f.Chance(1, 2) {
		cs.SigDelayUS = []int64{200001, 900001, 1200001, 2500001}[f.Draw(4)]
	}

	dir := storeTempDir()
	defer os.RemoveAll(dir)
	sock, db, rundir := filepath.Join(dir, "sock"), filepath.Join(dir, "db"), filepath.Join(dir, "run")
	os.Mkdir(rundir, 0o755)
	var evs []c27ev

	c.Bubble(func() {
		s := simrt.New(c.T)
		s.EnableHB()
		s.KeepTrace = c.Knobs["trace"] != ""
		s.MaxSteps = 600000
		// Slow-party faults: a process is descheduled at a protocol step while
		// (fake) time passes for everybody else.
		for _, st := range cs.Stalls {
			s.AddStall(st.Site, st.Nth, time.Duration(st.US)*time.Microsecond)
		}
		defer func() {
			for i := 0; i < s.StallsFired; i++ {
				c.Fault("process-stalled")
			}
		}()
		rec := func(kind string, proc, arg int, msg string) {
			evs = append(evs, c27ev{step: simrt.CurStep(), at: s.Now(), kind: kind, proc: proc, arg: arg, msg: msg})
		}
		sigChans := map[int]chan os.Signal{}
		alive := map[int]bool{}
		signalled := map[int]bool{}
		nextPid := 5000
		runDaemon := func(pid int, version *int) {
			ch := sigChans[pid]
			simrt.SetProcess(pid)
			alive[pid] = true
			rec("serve-start", pid, 0, "")
			code := daemon.Serve(sock, db, daemon.ServeOpts{Signals: ch, Version: version})
			alive[pid] = false
			rec("serve-exit", pid, code, "")
			s.ExitProcess(pid)
		}
		s.SetSignalHook(func(pid int, sig os.Signal) error {
			ch := sigChans[pid]
			if ch == nil || !alive[pid] {
				return syscall.ESRCH
			}
			signalled[pid] = true
			rec("signalled", pid, 1, "by a shell (kill of an outdated daemon)")
			if cs.SigDelayUS > 0 {
				c.Fault("signal-takes-effect-late")
				go func() {
					simrt.SetProcess(pid)
					time.Sleep(time.Duration(cs.SigDelayUS) * time.Microsecond)
					select {
					case ch <- sig:
					default:
					}
				}()
				return nil
			}
			select {
			case ch <- sig:
			default:
			}
			return nil
		})
		spawned := 0
		pendingSpawns := 0
		restore := daemon.VerifSetStartProcess(func(name string, argv []string, attr *os.ProcAttr) error {
			idx := spawned
			spawned++
			if idx == cs.SpawnFail {
				c.Fault("spawn-failure")
				return errors.New("simulated: fork failed")
			}
			pid := nextPid
			nextPid++
			sigChans[pid] = make(chan os.Signal, 4)
			delay := time.Duration(cs.SpawnUS[idx%len(cs.SpawnUS)]) * time.Microsecond
			if delay > time.Second {
				c.Fault("spawn-slower-than-timeout")
			}
			rec("spawn", pid, 0, delay.String())
			pendingSpawns++
			go func() {
				simrt.SetProcess(pid)
				time.Sleep(delay)
				pendingSpawns--
				runDaemon(pid, nil)
			}()
			return nil
		})
		defer restore()

		// Initial state.
		initialPid := 0
		switch cs.Initial {
		case "stale":
			s.MakeStaleSocket(sock)
			c.Fault("stale-socket")
		case "live", "outdated":
			initialPid = 4000
			sigChans[initialPid] = make(chan os.Signal, 4)
			var ver *int
			if cs.Initial == "outdated" {
				v := -100000
				ver = &v
				c.Fault("outdated-daemon")
			}
			s.Spawn("initial-daemon", func() { runDaemon(initialPid, ver) })
			for i := 0; i < cs.Holders; i++ {
				s.Spawn("initial-client", func() {
					simrt.SetProcess(100)
					cl := daemon.NewClient(sock)
					for try := 0; try < 200; try++ {
						if _, err := cl.Version(); err == nil {
							break
						}
						cl.ResetConn()
						time.Sleep(time.Millisecond)
					}
					time.Sleep(time.Duration(cs.HolderUS) * time.Microsecond)
					cl.Close()
				})
			}
		}
		shellsDone := 0
		for si, sh := range cs.Shells {
			si, sh := si, sh
			s.Spawn("shell", func() {
				defer func() { shellsDone++ }()
				simrt.SetProcess(si + 1)
				if cs.Initial == "live" || cs.Initial == "outdated" {
					time.Sleep(3 * time.Millisecond) // the initial daemon is up before any shell starts
				}
				time.Sleep(time.Duration(sh.StartUS) * time.Microsecond)
				var stderr bytes.Buffer
				t0 := s.Now()
				cl, err := daemon.Activate(&stderr, &daemondefs.SpawnConfig{DbPath: db, SockPath: sock, RunDir: rundir})
				took := s.Now() - t0
				// bounded liveness "once faults stop": injected stalls are added to the budget
				var stallBudget time.Duration
				for _, st := range cs.Stalls {
					stallBudget += time.Duration(st.US) * time.Microsecond
				}
				if took > 2500*time.Millisecond+stallBudget {
					c.Violation("liveness", "shell %d: Activate took %v of simulated time (spawn and kill time-outs are 1 s each)", si+1, took)
				}
				if err != nil {
					rec("activate-err", si+1, 0, err.Error())
					if cl != nil {
						cl.Close()
					}
					return
				}
				// "activation ends with the shell connected to a live daemon that owns the database"
				_, err = cl.NextCmdSeq()
				pid, perr := cl.Pid()
				if err != nil || perr != nil {
					rec("activate-bad", si+1, pid, fmt.Sprintf("NextCmdSeq: %v; Pid: %v", err, perr))
					cl.Close()
					return
				}
				rec("activate-ok", si+1, pid, "")
				rec("hold", si+1, pid, "")
				time.Sleep(time.Duration(sh.HoldUS) * time.Microsecond)
				// still served?
				if _, err := cl.NextCmdSeq(); err != nil {
					rec("lost-daemon", si+1, pid, err.Error())
				}
				rec("release", si+1, pid, "")
				cl.Close()
			})
		}
		if cs.SignalUS > 0 {
			s.Spawn("signaller", func() {
				time.Sleep(time.Duration(cs.SignalUS) * time.Microsecond)
				var pids []int
				for pid, a := range alive {
					if a {
						pids = append(pids, pid)
					}
				}
				sort.Ints(pids)
				if len(pids) > 0 {
					pid := pids[0]
					signalled[pid] = true
					rec("signalled", pid, 0, "")
					c.Fault("daemon-signalled")
					select {
					case sigChans[pid] <- syscall.SIGTERM:
					default:
					}
				}
			})
		}
		// Janitor: when everything else is over, terminate daemons that nobody
		// uses (a daemon that came up after its shell gave up waits for clients
		// forever, by design), so that the simulation can end.
		s.Spawn("janitor", func() {
			for round := 0; round < 400; round++ {
				time.Sleep(250 * time.Millisecond)
				if shellsDone < len(cs.Shells) {
					continue
				}
				n := 0
				var pids []int
				for pid := range alive {
					pids = append(pids, pid)
				}
				sort.Ints(pids) // map order must not decide the schedule
				for _, pid := range pids {
					if alive[pid] {
						n++
						signalled[pid] = true
						select {
						case sigChans[pid] <- syscall.SIGTERM:
						default:
						}
					}
				}
				if n == 0 && pendingSpawns == 0 {
					return
				}
			}
		})
		v := s.Run()
		c.FinishSim(s, v)
		if v == nil {
			c.ReportRaces(s)
		}
		if v != nil {
			return
		}
		checkC27(c, cs, s, evs, sock, signalled)
	})
}

func checkC27(c *Ctx, cs *c27case, s *simrt.Sim, evs []c27ev, sock string, signalled map[int]bool) {
	net := s.NetEvents()
	// Merge into one timeline ordered by step.
	type tl struct {
		step int
		text string
	}
	var lines []tl
	isShell := func(p int) bool { return p >= 1 && p < 100 }
	// Daemon serving intervals: [listen, first own removal of the path or serve-exit).
	daemons := map[int]*dstate{}
	var order []*dstate
	var shellRemovals []simrt.NetEvent // a shell removed a socket of a live listener, in stale-socket recovery
	var otherRemovals []simrt.NetEvent // ... in any other situation
	lastDial := map[int]simrt.NetEvent{}
	for _, e := range net {
		if e.Path != sock && e.Kind != "signal" {
			continue
		}
		lines = append(lines, tl{e.Step, fmt.Sprintf("proc %d %s gen=%d %s", e.Proc, e.Kind, e.Gen, e.Err)})
		if strings.HasPrefix(e.Kind, "dial-") {
			lastDial[e.Proc] = e
		}
		switch e.Kind {
		case "listen":
			d := &dstate{pid: e.Proc, gen: e.Gen, listenStep: e.Step, endStep: -1}
			daemons[e.Proc] = d
			order = append(order, d)
		case "remove", "close-unlink":
			if d := daemons[e.Proc]; d != nil && !isShell(e.Proc) {
				if d.endStep < 0 {
					d.endStep = e.Step
				}
				if e.Gen != d.gen {
					desc := fmt.Sprintf("daemon %d (which created socket generation %d) removed socket generation %d, created by another daemon", e.Proc, d.gen, e.Gen)
					c.Violation("own-socket", "%s%s", c27cause(shellRemovals), desc)
				}
			}
			if isShell(e.Proc) && s.ListenerAlive(e.Gen) || isShell(e.Proc) && listenerWasAliveAt(order, e.Gen, e.Step) {
				// The known check-then-remove race: the shell found a socket
				// that refused connections (a dead generation) and then removed
				// the path, which by then belonged to a live daemon. Any other
				// removal of a live daemon's socket by a shell is not that race.
				if d, ok := lastDial[e.Proc]; ok && d.Kind == "dial-refused" && d.Gen != e.Gen {
					shellRemovals = append(shellRemovals, e)
				} else {
					otherRemovals = append(otherRemovals, e)
				}
			}
		}
	}
	for _, e := range evs {
		lines = append(lines, tl{e.step, fmt.Sprintf("%v: %s proc=%d arg=%d %s", e.at, e.kind, e.proc, e.arg, e.msg)})
		if e.kind == "serve-exit" {
			if d := daemons[e.proc]; d != nil && d.endStep < 0 {
				d.endStep = e.step
			}
		}
	}
	sort.SliceStable(lines, func(i, j int) bool { return lines[i].step < lines[j].step })
	for _, l := range lines {
		cs.Timeline = append(cs.Timeline, fmt.Sprintf("%d %s", l.step, l.text))
	}
	if len(cs.Timeline) > 120 {
		cs.Timeline = cs.Timeline[:120]
	}
	for _, e := range otherRemovals {
		d := lastDial[e.Proc]
		c.Violation("live-socket-removed", "shell %d removed the socket file of a LIVE daemon (generation %d) at step %d although its last connection attempt (%s, generation %d) had not found a dead socket: the daemon is now unreachable, or a second daemon will serve beside it", e.Proc, e.Gen, e.Step, d.Kind, d.Gen)
	}
	if len(shellRemovals) > 0 {
		c.Probe("shell-removed-a-live-socket")
	}
	cause := c27cause(shellRemovals)
	// I1: at most one daemon serves the socket at a time.
	for i := 0; i < len(order); i++ {
		for j := i + 1; j < len(order); j++ {
			a, b := order[i], order[j]
			aEnd := a.endStep
			if aEnd < 0 {
				aEnd = 1 << 30
			}
			if b.listenStep < aEnd {
				c.Violation("one-daemon", "%sdaemon %d started serving the socket at step %d while daemon %d (serving since step %d) had not stopped (it stopped at step %d)", cause, b.pid, b.listenStep, a.pid, a.listenStep, a.endStep)
			}
		}
	}
	// I2 / I3 from the harness events.
	holding := map[int]map[int]bool{} // daemon pid -> shells holding a client
	for _, e := range evs {
		switch e.kind {
		case "activate-bad":
			// A daemon that was sent SIGTERM in the meantime may legitimately be gone.
			sigBefore := false
			for _, e2 := range evs {
				if e2.kind == "signalled" && e2.step <= e.step {
					sigBefore = true
				}
			}
			if sigBefore {
				c.Probe("activation-then-daemon-signalled")
				continue
			}
			c.Violation("activation", "%sshell %d: Activate returned success but the daemon it is connected to does not serve the database: %s", cause, e.proc, e.msg)
		case "hold":
			if holding[e.arg] == nil {
				holding[e.arg] = map[int]bool{}
			}
			holding[e.arg][e.proc] = true
		case "release":
			delete(holding[e.arg], e.proc)
		case "lost-daemon":
			if !signalled[e.arg] {
				c.Violation("keeps-serving", "%sshell %d lost its daemon %d while holding its client: %s", cause, e.proc, e.arg, e.msg)
			}
		case "serve-exit":
			if len(holding[e.proc]) > 0 && !signalled[e.proc] {
				c.Violation("keeps-serving", "%sdaemon %d left its serve loop while shells %v were still connected to it and no signal had been sent", cause, e.proc, keysOf(holding[e.proc]))
			}
		}
	}
	ok, bad := 0, 0
	for _, e := range evs {
		switch e.kind {
		case "activate-ok":
			ok++
		case "activate-err":
			bad++
		}
	}
	if ok > 0 {
		c.Probe("activation-succeeded")
	}
	if bad > 0 {
		c.Probe("activation-returned-error")
	}
	if len(order) > 1 {
		c.Probe("several-daemons-in-one-run")
	}
}

type dstate struct {
	pid, gen   int
	listenStep int
	endStep    int // -1 while serving
}

func listenerWasAliveAt(order []*dstate, gen, step int) bool {
	for _, d := range order {
		if d.gen == gen && d.listenStep <= step && (d.endStep < 0 || d.endStep > step) {
			return true
		}
	}
	return false
}

// c27cause names the root cause shared by every consequence of the known
// stale-socket recovery race, so that the known-findings entry can be keyed to
// this specific history and to nothing else.
func c27cause(rem []simrt.NetEvent) string {
	if len(rem) == 0 {
		return ""
	}
	e := rem[0]
	return fmt.Sprintf("[stale-socket recovery race: shell %d removed the socket file of a LIVE daemon (generation %d) at step %d, having classified an earlier socket at that path as refusing connections] ", e.Proc, e.Gen, e.Step)
}

func keysOf(m map[int]bool) []int {
	var ks []int
	for k := range m {
		ks = append(ks, k)
	}
	sort.Ints(ks)
	return ks
}

var _ = strings.Join
