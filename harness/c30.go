package h

import (
	"strings"
	"time"

	"src.elv.sh/pkg/edit/highlight"
	"src.elv.sh/pkg/eval"
	"src.elv.sh/pkg/parse"
	"src.elv.sh/pkg/ui"
	"src.elv.sh/zzverif/simrt"
)

// ---- C30: syntax highlighting never changes the text and is never stale ------

func init() { props["C30"] = runC30 }

type c30case struct {
	Codes     []string `json:"codes"`
	DelaysUS  []int    `json:"lookup_delays_us"`
	Lookup    bool     `json:"lookup"`
	Invalidat int      `json:"invalidations"`
}

var c30snips = []string{
	"echo", " ", "a", "ls", "$x", "{", "}", "|", "put", "'", "\"", "#c", "\n", "(", ")", "[", "]", "&k=v",
	"nosuchcmd", "if", "e:ls", "fn f { }", "var x = 1", ";", ">", "<", "?", "*", "~", "$", "\\", "é", "\xff", "\xc3",
	"\x80", "\xbf", "\xf0\x9f", "😀", "\u00a0", "$*", "$]", "a\x80b",
	"for x [a b] { put $x }", "while", "each {|x| put $x }", "try { fail x } catch e { }", "peach", "use str",
}

func genCode(w *simrt.Tape) string {
	n := w.Range(0, 8)
	var sb strings.Builder
	for i := 0; i < n; i++ {
		sb.WriteString(c30snips[w.Draw(len(c30snips))])
		if w.Chance(2, 3) {
			sb.WriteString(" ")
		}
	}
	return sb.String()
}

func textOf(t ui.Text) string {
	var sb strings.Builder
	for _, seg := range t {
		sb.WriteString(seg.Text)
	}
	return sb.String()
}

func runC30(c *Ctx) {
	w := c.T.Workload
	cs := &c30case{Lookup: !w.Chance(1, 6)}
	c.Res.Case = cs
	// A sequence of codes as an editing session produces them: consecutive
	// codes often differ by a small edit, and earlier codes are revisited.
	ncodes := w.Range(1, 25)
	if c.Thorough() {
		ncodes = w.Range(1, 80)
	}
	cur := genCode(w)
	for i := 0; i < ncodes; i++ {
		switch w.Draw(9) {
		case 8:
			// insert one byte at a random place, biased towards the bytes that
			// make UTF-8 invalid (stray continuation bytes, truncated leaders)
			k := w.Draw(len(cur) + 1)
			bs := []byte{0x80, 0x80, 0xbf, 0xc3, 0xe2, 0xf0, 0xff, 0x00, 0x1b, '$', '\\', '\'', '"', byte(w.Draw(256))}
			cur = cur[:k] + string([]byte{bs[w.Draw(len(bs))]}) + cur[k:]
		case 0:
			cur = genCode(w)
		case 1:
			if len(cs.Codes) > 0 {
				cur = cs.Codes[w.Draw(len(cs.Codes))] // revisit
			}
		case 2, 3:
			if len(cur) > 0 {
				k := w.Draw(len(cur) + 1)
				cur = cur[:k] // a prefix (typing in progress)
			}
		case 4:
			if len(cur) > 0 {
				k := w.Draw(len(cur))
				cur = cur[:k] + cur[k+1:] // delete one byte
			}
		default:
			cur += c30snips[w.Draw(len(c30snips))]
		}
		cs.Codes = append(cs.Codes, cur)
	}
	delay := func() time.Duration {
		switch w.Draw(6) {
		case 0:
			return 0
		case 1, 2:
			return time.Duration(1+2*w.Draw(4000)) * time.Microsecond // below the 10ms block
		case 3:
			return 10*time.Millisecond - time.Duration(1+2*w.Draw(30))*time.Microsecond
		case 4:
			return 10*time.Millisecond + time.Duration(1+2*w.Draw(30))*time.Microsecond
		default:
			return time.Duration(10001+2*w.Draw(40000)) * time.Microsecond // above
		}
	}
	for i := 0; i < 64; i++ {
		cs.DelaysUS = append(cs.DelaysUS, int(delay()/time.Microsecond))
	}
	// (The editor always drains late updates, as the real application loop
	// does; leaving more than the channel's buffer undrained would block the
	// delivering goroutines by design, which is not what the property is about.)
	flood := false
	c.Bubble(func() {
		s := simrt.New(c.T)
		s.EnableHB()
		s.KeepTrace = c.Knobs["trace"] != ""
		lookups := 0
		ev := eval.NewEvaler()
		cfg := highlight.Config{
			Check: func(t parse.Tree) (string, []*eval.CompilationError) {
				autofixes, err := ev.CheckTree(t, nil)
				return strings.Join(autofixes, "; "), eval.UnpackCompilationErrors(err)
			},
			AutofixTip: func(a string) ui.Text { return ui.T("autofix: " + a) },
		}
		if cs.Lookup {
			cfg.HasCommand = func(name string) bool {
				d := time.Duration(cs.DelaysUS[lookups%len(cs.DelaysUS)]) * time.Microsecond
				lookups++
				if d > 0 {
					time.Sleep(d)
				}
				return len(name)%2 == 0
			}
		}
		hl := highlight.NewHighlighter(cfg)
		current := ""
		done := false
		lateSeen, lateChecked := 0, 0
		check := func(when, code string, t ui.Text) {
			if got := textOf(t); got != code {
				c.Violation("text", "%s: highlighted text %q is not the code %q", when, got, code)
			}
		}
		s.Spawn("editor", func() {
			defer func() { done = true }()
			for _, code := range cs.Codes {
				current = code
				t, _ := hl.Get(code)
				check("Get (immediate result)", code, t)
				if !c.Res.OK {
					return
				}
				// The editor redraws on late updates: Get(current) again.
				if !flood {
					for drained := false; !drained; {
						select {
						case <-hl.LateUpdates():
							lateSeen++
							t, _ := hl.Get(current)
							lateChecked++
							check("Get after a late-update signal", current, t)
						default:
							drained = true
						}
					}
				}
				if w.Chance(1, 2) {
					time.Sleep(time.Duration(1+2*w.Draw(12000)) * time.Microsecond)
				}
			}
			// Let every late result arrive, then drain.
			time.Sleep(200 * time.Millisecond)
			for drained := false; !drained; {
				select {
				case <-hl.LateUpdates():
					lateSeen++
					t, _ := hl.Get(current)
					lateChecked++
					check("Get after a late-update signal (final drain)", current, t)
				default:
					drained = true
				}
			}
			t, _ := hl.Get(current)
			check("final Get", current, t)
		})
		ninv := w.Draw(4)
		cs.Invalidat = ninv
		if ninv > 0 {
			s.Spawn("invalidator", func() {
				for i := 0; i < ninv && !done; i++ {
					time.Sleep(time.Duration(1+2*w.Draw(20000)) * time.Microsecond)
					hl.InvalidateCache()
					// after an invalidation the editor's next Get recomputes
					cc := current
					t, _ := hl.Get(cc)
					check("Get after InvalidateCache", cc, t)
				}
			})
		}
		v := s.Run()
		if v != nil && v.Class == "deadlock" && done {
			v.Class = "leak"
			v.Detail = "the editing session ended but highlighter goroutines never finish (late results nobody can receive): " + v.Detail
		}
		c.FinishSim(s, v)
		if v == nil {
			c.ReportRaces(s)
		}
		if lateSeen > 0 {
			c.Probe("late-result-delivered")
		}
		if lookups > 0 {
			c.Probe("command-lookups")
		}
	})
}
