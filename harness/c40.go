package h

import (
	"context"
	"fmt"
	"os"
	"path/filepath"
	"runtime"
	"runtime/debug"
	"strings"

	"src.elv.sh/pkg/eval"
	"src.elv.sh/pkg/mods/re"
	"src.elv.sh/pkg/mods/str"
	"src.elv.sh/pkg/parse"
	"src.elv.sh/zzverif/simrt"
)

// ---- C40: finished evaluations leave no descriptors or goroutines behind ----

func init() { props["C40"] = runC40 }

type c40case struct {
	Code      string `json:"code"`
	Reps      int    `json:"reps"`
	Interrupt int    `json:"interrupt_step,omitempty"`
	PipeCap   int    `json:"pipe_cap"`
}

func genC40(c *Ctx, dir string) *c40case {
	w := c.T.Workload
	f1, f2 := filepath.Join(dir, "f1"), filepath.Join(dir, "f2")
	n := w.Range(0, 40)
	if w.Chance(1, 6) {
		n = w.Range(40, 200)
	}
	snip := func() string {
		switch w.Draw(38) {
		case 0:
			return fmt.Sprintf("range %d | each {|x| put $x } | count", n)
		case 1:
			return fmt.Sprintf("range %d | nop", n)
		case 2:
			return fmt.Sprintf("range %d | each {|x| echo $x } | { }", n)
		case 3:
			return fmt.Sprintf("range %d | each {|x| if (== $x %d) { fail boom }; put $x } | count", n, n/2)
		case 4:
			return fmt.Sprintf("for i [(range %d)] { echo line$i } > %s", n, f1)
		case 5:
			return fmt.Sprintf("echo more >> %s", f1)
		case 6:
			return fmt.Sprintf("echo x > %s; slurp < %s", f1, f1)
		case 7:
			return fmt.Sprintf("echo x > %s; only-bytes < %s | count", f1, f1)
		case 8:
			return fmt.Sprintf("{ echo a; put b; range %d } > %s", n, f2)
		case 9:
			return "echo err >&2"
		case 10:
			return fmt.Sprintf("{ echo a >&2; echo b } 2>&1 | count")
		case 11:
			return "echo closed >&-"
		case 12:
			return fmt.Sprintf("{ echo three >&3 } 3> %s", f2)
		case 13:
			return fmt.Sprintf("var x = (range %d | each {|x| put $x; echo $x }); count $x", n)
		case 14:
			return fmt.Sprintf("put (range %d | each {|x| put $x } | take 3) | count", n)
		case 15:
			return fmt.Sprintf("peach &num-workers=3 {|x| echo $x > %s$x } [a b c d]", f2)
		case 16:
			return fmt.Sprintf("peach {|x| put (echo $x | slurp) } [(range %d)] | count", w.Range(0, 8))
		case 17:
			return fmt.Sprintf("try { range %d | each {|x| fail f$x } | count } catch e { put caught }", n)
		case 18:
			return fmt.Sprintf("range %d | each {|x| fail a } | each {|x| fail b } | fail c", n)
		case 19:
			return fmt.Sprintf("echo x <> %s", f1)
		case 20:
			return fmt.Sprintf("echo x > %s; { slurp; slurp < %s } < %s", f1, f1, f1)
		case 21:
			return fmt.Sprintf("run-parallel { echo a > %s } { range %d | count } { fail p }", f1, n)
		case 22:
			return fmt.Sprintf("range %d | to-lines | from-lines | only-values | count", n)
		case 23:
			return fmt.Sprintf("fn g { range %d | each {|x| put $x } }; g | take 2; g > %s", n, f2)
		case 24:
			return fmt.Sprintf("echo x > %s; echo y < %s > %s 2>&1", f1, f1, f2)
		// Builtins that capture the output of a callback (Frame.CaptureOutput /
		// PipeOutput), with callbacks that succeed, fail, or produce much output.
		case 26:
			return "order &key={|x| fail badkey } [c a b]"
		case 27:
			return fmt.Sprintf("order &key={|x| range %d | each {|y| put $y } | count } [c a b] | count", n)
		case 28:
			return "keep-if {|x| fail nope } [a b c]"
		case 29:
			return fmt.Sprintf("keep-if {|x| echo noise; range %d | count | nop (all); put $true } [a b c] | count", n)
		case 30:
			return "order &less-than={|a b| fail cmp } [c a b]"
		case 31:
			return "styled foo {|s| fail transformer }"
		case 32:
			return "try { order &key={|x| if (eq $x b) { fail mid }; put $x } [c a b] } catch e { put caught }"
		case 33:
			return fmt.Sprintf("put (keep-if {|x| range %d | each {|y| fail inner } } [a b])", n)
		case 34:
			return "use re; re:replace a {|m| fail repl } banana"
		case 35:
			return "use str; each {|x| put (str:join , [(range 3)]) } [a b] | count"
		case 36:
			return fmt.Sprintf("var r = ?(order &key={|x| range %d | nop; fail after } [b a]); put $r | count", n)
		case 37:
			// A random chain of redirections on one form: the same fd redirected
			// more than once, ports duplicated onto other fds before or after
			// being replaced, closed fds, and an input file that may not exist
			// (so a later redirection fails after earlier ones opened files).
			redirs := []string{"> " + f1, "> " + f2, ">> " + f1, "2> " + f2, "2>&1", ">&2",
				"3> " + f2, "3>&1", "2>&3", ">&-", "< " + f1, "<> " + f2}
			code := "{ echo a; echo b >&2 }"
			if w.Chance(1, 2) {
				code = "echo w"
			}
			for i, k := 0, w.Range(2, 5); i < k; i++ {
				code += " " + redirs[w.Draw(len(redirs))]
			}
			return code
		default:
			return fmt.Sprintf("var y = ?(range %d | each {|x| fail z }); put ok", n)
		}
	}
	// Wrappers put a snippet on other exit paths: inside captures, exception
	// handlers, loops, functions, parallel callbacks, and as a pipeline stage
	// whose reader consumes everything, one item, or nothing. None of them
	// opens a file explicitly or starts a background job.
	lbl := 0
	var wrap func(code string, depth int) string
	wrap = func(code string, depth int) string {
		if depth == 0 || !w.Chance(1, 2) {
			return code
		}
		lbl++
		var out string
		switch w.Draw(14) {
		case 0:
			out = fmt.Sprintf("try { %s } catch e { put caught }", code)
		case 1:
			out = fmt.Sprintf("try { %s } finally { echo fin > %s }", code, f2)
		case 2:
			out = fmt.Sprintf("var w%d = ?(%s)", lbl, code)
		case 3:
			out = fmt.Sprintf("var w%d = [(%s)]", lbl, code)
		case 4:
			out = fmt.Sprintf("peach {|_| %s } [1 2 3]", code)
		case 5:
			out = fmt.Sprintf("fn h%d { %s }; h%d", lbl, code, lbl)
		case 6:
			out = fmt.Sprintf("{ %s } > %s", code, f2)
		case 7:
			out = fmt.Sprintf("{ %s } | count", code)
		case 8:
			out = fmt.Sprintf("{ %s } | nop", code)
		case 9:
			out = fmt.Sprintf("{ %s } | take 1", code)
		case 10:
			out = fmt.Sprintf("run-parallel { %s } { %s }", code, snip())
		case 11:
			out = fmt.Sprintf("for i [1 2] { %s }", code)
		case 12:
			out = fmt.Sprintf("{ %s } 2>&1 | each {|x| put $x } | count", code)
		default:
			out = fmt.Sprintf("each {|_| %s } [1 2] | each {|x| fail downstream }", code)
		}
		return wrap(out, depth-1)
	}
	k := w.Range(1, 3)
	var parts []string
	for i := 0; i < k; i++ {
		parts = append(parts, wrap(snip(), 2))
	}
	cs := &c40case{Code: strings.Join(parts, "; "), Reps: 6, PipeCap: []int{4096, 65536}[w.Draw(2)]}
	if c.Thorough() {
		cs.Reps = 20
	}
	return cs
}

func runC40(c *Ctx) {
	dir, err := os.MkdirTemp("", "c40-")
	if err != nil {
		panic(err)
	}
	defer os.RemoveAll(dir)
	cs := genC40(c, dir)
	c.Res.Case = cs
	// Finalizers must not mask a leak: no garbage collection during the run.
	old := debug.SetGCPercent(-1)
	defer func() {
		debug.SetGCPercent(old)
		runtime.GC()
	}()
	c.Bubble(func() {
		s := simrt.New(c.T)
		s.EnableHB()
		s.KeepTrace = c.Knobs["trace"] != ""
		simrt.PipeCap.Store(int64(cs.PipeCap))
		var ci cancelInfo
		var curCancel context.CancelFunc
		interruptAt := -1
		if c.T.Faults.Chance(1, 3) {
			interruptAt = c.T.Faults.Range(1, 3000)
			cs.Interrupt = interruptAt
		}
		// The cancellation targets whichever evaluation is running at that step.
		if interruptAt >= 0 {
			cancelAtStep(s, interruptAt, cancelVia(&curCancel), &ci)
		}
		done := false
		s.Spawn("main", func() {
			ev := eval.NewEvaler()
			ev.AddModule("re", re.Ns)
			ev.AddModule("str", str.Ns)
			outPort, collect, err := eval.CapturePort()
			if err != nil {
				panic(err)
			}
			var base []string
			for rep := 0; rep <= cs.Reps; rep++ {
				ctx, cancel := context.WithCancel(context.Background())
				curCancel = cancel
				before := map[string]bool{}
				for _, id := range s.LiveDescendants(simrt.SelfID()) {
					before[id] = true
				}
				evalErr := ev.Eval(parse.Source{Name: "[c40]", Code: cs.Code},
					eval.EvalCfg{Ports: []*eval.Port{eval.DummyInputPort, outPort, outPort}, Interrupts: ctx})
				curCancel = nil
				snap := fdSnapshot()
				cancel()
				if evalErr != nil {
					c.Probe("evaluation-ended-with-exception")
				} else {
					c.Probe("evaluation-ended-normally")
				}
				if rep == 0 {
					// warm-up: the runtime may lazily create descriptors of its own
					base = snap
					continue
				}
				leaked, gone := fdDiff(base, snap)
				if len(leaked) > 0 || len(gone) > 0 {
					c.Violation("descriptors", "after evaluation #%d (result: %v) the open descriptors differ from the baseline: leaked %v, missing %v", rep, evalErr, leaked, gone)
					s.Fail("oracle", "descriptor leak")
					return
				}
			}
			collect()
			done = true
		})
		v := s.Run()
		if ci.done {
			c.Fault("interrupt")
		}
		if v != nil && v.Class == "deadlock" && done {
			v.Class = "leak"
			v.Detail = "all evaluations returned but goroutines they started never finish: " + v.Detail
		}
		c.FinishSim(s, v)
		if v == nil {
			c.ReportRaces(s)
		}
	})
}
