package h

import (
	"context"
	"errors"
	"fmt"
	"sort"
	"strconv"
	"strings"
	"time"

	"src.elv.sh/pkg/eval"
	"src.elv.sh/pkg/parse"
	"src.elv.sh/zzverif/simrt"
)

// ---- C19: interrupting evaluation at any moment ----------------------------

func init() { props["C19"] = runC19 }

type c19prog struct {
	Name   string `json:"name"`
	Code   string `json:"code"`
	Bound  int    `json:"bound,omitempty"` // concurrency bound of work items (0 = none)
	HasBG  bool   `json:"has_bg,omitempty"`
	Direct bool   `json:"direct,omitempty"` // ticks are called as Go callables by a builtin (not Elvish pipelines)
	Intr   bool   `json:"intr,omitempty"`   // contains a synchronous in-program interrupt
}

type c19case struct {
	Prog     c19prog `json:"prog"`
	Mode     string  `json:"mode"` // enumerate | random | intr
	Schedule string  `json:"schedule,omitempty"`
	K        int     `json:"k,omitempty"`
	RefSteps int     `json:"ref_steps,omitempty"`
}

type tickEv struct {
	id   string
	gid  string
	step int
}

type c19env struct {
	ticks   []tickEv
	running int
	maxRun  int
	cancel  context.CancelFunc
	ci      *cancelInfo
	s       *simrt.Sim

	allowIntr bool
}

func (e *c19env) tick(args ...any) {
	id := "?"
	if len(args) > 0 {
		if s, ok := args[0].(string); ok {
			id = s
		}
	}
	e.ticks = append(e.ticks, tickEv{id, simrt.SelfID(), simrt.CurStep()})
}

// work models a callback that takes (fake) time; it measures concurrency.
func (e *c19env) work(args ...any) {
	e.running++
	if e.running > e.maxRun {
		e.maxRun = e.running
	}
	e.ticks = append(e.ticks, tickEv{"W", simrt.SelfID(), simrt.CurStep()})
	time.Sleep(3 * time.Millisecond)
	e.running--
}

// intr cancels the evaluation synchronously from inside the program.
func (e *c19env) intr() {
	if e.ci.done || !e.allowIntr {
		return
	}
	e.ci.done = true
	e.ci.step = simrt.CurStep()
	e.ci.at = e.s.Now()
	e.ci.gid = simrt.SelfID()
	e.s.Note("fault:intr")
	e.cancel()
}

// genC19Composed builds a program by composing the language's control
// constructs at random (depth <= 2, thorough 3): loops, each over lists and pipes,
// try/catch/finally, function definition and call, output capture, lambda
// call, if/else, peach, run-parallel, with uniquely labelled ticks as the
// observable pipelines and at most one in-program interrupt. The oracle's
// rules are the same for every program.
func genC19Composed(w *simrt.Tape, wantIntr bool, maxDepth int) (string, bool) {
	lbl := 0
	hasIntr := false
	tick := func() string { lbl++; return fmt.Sprintf("vt T%d", lbl) }
	var stmts func(depth int) string
	stmt := func(depth int) string {
		k := w.Draw(15)
		if depth >= maxDepth && k >= 3 {
			k = w.Draw(3)
		}
		n := w.Range(1, 3)
		switch k {
		case 0, 1:
			return tick()
		case 2:
			if wantIntr && !hasIntr && w.Chance(1, 2) {
				hasIntr = true
				return "vintr"
			}
			return tick()
		case 3:
			return fmt.Sprintf("for i [(range %d)] { %s }", n, stmts(depth+1))
		case 4:
			return fmt.Sprintf("each {|x| %s } [(range %d)]", stmts(depth+1), n)
		case 5:
			return fmt.Sprintf("range %d | each {|x| %s }", n, stmts(depth+1))
		case 6:
			return fmt.Sprintf("try { %s } finally { %s }", stmts(depth+1), stmts(depth+1))
		case 7:
			return fmt.Sprintf("try { %s } catch e { %s }", stmts(depth+1), stmts(depth+1))
		case 8:
			lbl++
			return fmt.Sprintf("fn g%d { %s }; g%d", lbl, stmts(depth+1), lbl)
		case 9:
			lbl++
			return fmt.Sprintf("var v%d = (%s; put x)", lbl, stmts(depth+1))
		case 10:
			return fmt.Sprintf("{ %s }", stmts(depth+1))
		case 11:
			return fmt.Sprintf("if (eq %d 1) { %s } else { %s }", n, stmts(depth+1), stmts(depth+1))
		case 12:
			return fmt.Sprintf("peach {|x| %s } [(range %d)]", stmts(depth+1), n)
		case 13:
			return fmt.Sprintf("run-parallel { %s } { %s }", stmts(depth+1), stmts(depth+1))
		default:
			return fmt.Sprintf("%s | each {|x| %s }", "put (range "+fmt.Sprint(n)+")", stmts(depth+1))
		}
	}
	stmts = func(depth int) string {
		n := w.Range(1, 3)
		var parts []string
		for i := 0; i < n; i++ {
			parts = append(parts, stmt(depth))
		}
		return strings.Join(parts, "; ")
	}
	code := stmts(0)
	if lbl == 0 {
		code += "; " + tick()
	}
	return code, hasIntr
}

func genC19Prog(c *Ctx) c19prog {
	w := c.T.Workload
	n := w.Range(1, 6)
	if c.Thorough() && w.Chance(1, 4) {
		n = w.Range(6, 30)
	}
	b := w.Range(1, 4)
	intr := ""
	if w.Chance(1, 3) {
		intr = "vintr; "
	}
	if w.Chance(1, 4) {
		maxDepth := 2
		if c.Thorough() {
			maxDepth = 3
		}
		code, hasIntr := genC19Composed(w, intr != "", maxDepth)
		return c19prog{Name: "composed", Code: code, Intr: hasIntr}
	}
	switch w.Draw(22) {
	case 0:
		return c19prog{Name: "for", Code: fmt.Sprintf("for i [(range %d)] { vt A; %svt B }", n, intr), Intr: intr != ""}
	case 1:
		return c19prog{Name: "each-pipe", Code: fmt.Sprintf("range %d | each {|x| vt A; %svt B }", n, intr), Intr: intr != ""}
	case 2:
		return c19prog{Name: "recursion", Code: fmt.Sprintf("fn f {|n| vt F; %sif (> $n 0) { f (- $n 1) }; vt G }; f %d", intr, n), Intr: intr != ""}
	case 3:
		return c19prog{Name: "peach-bounded", Code: fmt.Sprintf("peach &num-workers=%d {|x| vw $x; %svt A } [(range %d)]", b, intr, n+2), Bound: b, Intr: intr != ""}
	case 4:
		return c19prog{Name: "peach-bounded-direct", Code: fmt.Sprintf("peach &num-workers=%d $vw~ [(range %d)]", b, n+3), Bound: b, Direct: true}
	case 5:
		return c19prog{Name: "peach-unbounded", Code: fmt.Sprintf("peach {|x| vw $x; vt A } [(range %d)]", n)}
	case 6:
		return c19prog{Name: "peach-pipe-bounded", Code: fmt.Sprintf("range %d | peach &num-workers=%d {|x| vw $x; %svt A }", n+2, b, intr), Bound: b, Intr: intr != ""}
	case 7:
		return c19prog{Name: "run-parallel", Code: fmt.Sprintf("run-parallel { vt A; %svt B } { vt C; sleep 1; vt D } { for i [(range %d)] { vt E } }", intr, n), Intr: intr != ""}
	case 8:
		return c19prog{Name: "sleep", Code: "vt A; sleep 1000; vt B"}
	case 9:
		return c19prog{Name: "try-finally", Code: fmt.Sprintf("try { for i [(range %d)] { vt A; %svt B } } finally { vt FIN }", n, intr), Intr: intr != ""}
	case 10:
		return c19prog{Name: "capture", Code: fmt.Sprintf("var x = (for i [(range %d)] { vt A; %sput $i } | count); vt B", n, intr), Intr: intr != ""}
	case 11:
		return c19prog{Name: "background", Code: fmt.Sprintf("{ vt bg1; sleep 5; vt bg2 } &; for i [(range %d)] { vt A; %svt B }", n, intr), HasBG: true, Intr: intr != ""}
	case 12:
		return c19prog{Name: "pipeline-3", Code: fmt.Sprintf("range %d | each {|x| vt A; put $x } | each {|x| %svt B; put $x } | each {|x| vt C }", n, intr), Intr: intr != ""}
	case 13:
		return c19prog{Name: "each-sleep", Code: fmt.Sprintf("range %d | each {|x| vt A; sleep 0.01; vt B }", n)}
	case 14:
		return c19prog{Name: "nested-peach", Code: fmt.Sprintf("peach &num-workers=2 {|x| for j [(range %d)] { vt A }; vw $x } [(range 4)]", n), Bound: 2}
	case 16:
		// the handler of an interrupted try must not run any pipeline either
		return c19prog{Name: "try-catch", Code: fmt.Sprintf("try { for i [(range %d)] { vt A; %svt B } } catch e { vt CATCH; vt CATCH2 }", n, intr), Intr: intr != ""}
	case 17:
		return c19prog{Name: "defer", Code: fmt.Sprintf("fn f { defer { vt D }; for i [(range %d)] { vt A; %svt B } }; f; vt AFTER", n, intr), Intr: intr != ""}
	case 18:
		return c19prog{Name: "each-list", Code: fmt.Sprintf("each {|x| vt A; %svt B } [(range %d)]", intr, n), Intr: intr != ""}
	case 19:
		return c19prog{Name: "nested-closures", Code: fmt.Sprintf("for i [(range %d)] { { { vt A }; { %svt B } } }", n, intr), Intr: intr != ""}
	case 20:
		return c19prog{Name: "capture-in-loop", Code: fmt.Sprintf("for i [(range %d)] { var v = (vt A; %sput x); vt B }", n, intr), Intr: intr != ""}
	case 21:
		return c19prog{Name: "and-or-if", Code: fmt.Sprintf("for i [(range %d)] { if (and ?(vt A) ?(vt B)) { %svt C } else { vt D } }", n, intr), Intr: intr != ""}
	default:
		return c19prog{Name: "while", Code: fmt.Sprintf("var i = 0; while (< $i %d) { vt A; %sset i = (+ $i 1) }", n, intr), Intr: intr != ""}
	}
}

type c19result struct {
	err     error
	ticks   []tickEv
	maxRun  int
	ci      cancelInfo
	retAt   time.Duration
	endAt   time.Duration
	retStep int
	steps   int
	live    []string
	sched   []uint32
	verdict *simrt.Verdict
	sim     *simrt.Sim
}

// simC19 runs prog once. k < 0: no scheduler-injected interrupt.
func simC19(c *Ctx, prog c19prog, tapes *simrt.Tapes, k int, allowIntr bool) *c19result {
	res := &c19result{}
	c.Bubble(func() {
		s := simrt.New(tapes)
		s.EnableHB()
		s.KeepTrace = c.Knobs["trace"] != ""
		s.MaxSteps = 200000
		res.sim = s
		ctx, cancel := context.WithCancel(context.Background())
		env := &c19env{cancel: cancel, ci: &res.ci, s: s, allowIntr: allowIntr}
		if k >= 0 {
			cancelAtStep(s, k, cancel, &res.ci)
		}
		s.Spawn("main", func() {
			ev := eval.NewEvaler()
			ev.ExtendGlobal(eval.BuildNs().AddGoFns(map[string]any{"vt": env.tick, "vw": env.work, "vintr": env.intr}))
			outPort, collect, err := eval.CapturePort()
			if err != nil {
				panic(err)
			}
			before := map[string]bool{}
			for _, id := range s.LiveDescendants(simrt.SelfID()) {
				before[id[:strings.Index(id, "@")]] = true
			}
			res.err = ev.Eval(parse.Source{Name: "[c19]", Code: prog.Code},
				eval.EvalCfg{Ports: []*eval.Port{eval.DummyInputPort, outPort, outPort}, Interrupts: ctx})
			res.retAt = s.Now()
			res.retStep = simrt.CurStep()
			for _, id := range s.LiveDescendants(simrt.SelfID()) {
				if !before[id[:strings.Index(id, "@")]] {
					res.live = append(res.live, id)
				}
			}
			collect()
		})
		v := s.Run()
		cancel()
		res.verdict = v
		res.endAt = s.Now()
		res.steps = s.Step
		res.ticks = env.ticks
		res.maxRun = env.maxRun
		res.sched = tapes.Sched.Rec
		c.FinishSim(s, v)
		if v == nil {
			c.ReportRaces(s)
		}
	})
	return res
}

func tickCounts(ts []tickEv, includeBG bool) map[string]int {
	m := map[string]int{}
	for _, t := range ts {
		if !includeBG && strings.HasPrefix(t.id, "bg") {
			continue
		}
		m[t.id]++
	}
	return m
}

func sameCounts(a, b map[string]int) bool {
	if len(a) != len(b) {
		return false
	}
	for k, v := range a {
		if b[k] != v {
			return false
		}
	}
	return true
}

func checkC19(c *Ctx, cs *c19case, ref, r *c19result) {
	prog := cs.Prog
	where := fmt.Sprintf("[%s mode=%s schedule=%s k=%d] ", prog.Name, cs.Mode, cs.Schedule, cs.K)
	// 6. concurrency bound
	if prog.Bound > 0 && r.maxRun > prog.Bound {
		c.Violation("bound", where+"%d callbacks ran at once, bound is %d", r.maxRun, prog.Bound)
	}
	if !r.ci.done {
		// The interrupt never fired (the program finished first): behave as
		// an ordinary run.
		if r.err != nil {
			c.Violation("result", where+"un-interrupted evaluation failed: %v", r.err)
		}
		return
	}
	c.Fault("interrupt")
	// 3. result
	all := sameCounts(tickCounts(ref.ticks, false), tickCounts(r.ticks, false))
	if r.err == nil {
		if !all {
			c.Violation("result", where+"evaluation returned nil after an interrupt at step %d although only %v of the ticks %v ran",
				r.ci.step, tickCounts(r.ticks, false), tickCounts(ref.ticks, false))
		}
		c.Probe("interrupt-after-completion-or-unnoticed")
	} else {
		leaves := errorLeaves(r.err)
		if len(leaves) == 0 {
			c.Violation("result", where+"evaluation returned an empty error %v", r.err)
		}
		for _, l := range leaves {
			if !errors.Is(l, eval.ErrInterrupted) {
				c.Violation("result", where+"interrupted evaluation returned %q (leaf %q), not an interrupted exception", r.err, l)
			}
		}
		c.Probe("interrupted-exception")
	}
	// 2. bounded liveness in fake time: an interrupted sleep must not run its course.
	if r.retAt-r.ci.at > 500*time.Millisecond {
		c.Violation("liveness", where+"evaluation returned %v of simulated time after the interrupt", r.retAt-r.ci.at)
	}
	// 4. no further pipeline starts
	if !prog.Direct {
		after := map[string]int{}
		for _, t := range r.ticks {
			if strings.HasPrefix(t.id, "bg") || t.id == "W" {
				continue
			}
			if t.step > r.ci.step {
				after[t.gid]++
			}
		}
		var gids []string
		for g := range after {
			gids = append(gids, g)
		}
		sort.Strings(gids)
		for _, g := range gids {
			limit := 1
			if g == r.ci.gid {
				limit = 0
			}
			if after[g] > limit {
				c.Violation("no-new-pipeline", where+"goroutine %s ran %d tick pipelines after the interrupt at step %d (allowed %d): %v",
					g, after[g], r.ci.step, limit, ticksOf(r.ticks, g))
			}
		}
	}
	// 5. goroutines
	// A goroutine that is still alive when the evaluation returns must have
	// nothing left to do: it may not run another tick or work item, and it may
	// not wait for (simulated) time. (A goroutine blocked forever is reported
	// by the engine as a deadlock; peach's workers legitimately execute their
	// semaphore release after signalling completion.)
	if !prog.HasBG {
		for _, t := range r.ticks {
			if t.step > r.retStep {
				c.Violation("goroutines", where+"goroutine %s ran %s at step %d, after the evaluation had returned at step %d (alive at return: %v)", t.gid, t.id, t.step, r.retStep, r.live)
			}
		}
		if r.endAt > r.retAt {
			c.Violation("goroutines", where+"goroutines started by the evaluation kept running for %v of simulated time after it returned (alive at return: %v)", r.endAt-r.retAt, r.live)
		}
	}
	if len(r.live) > 0 {
		c.Probe("goroutine-alive-at-return-but-finishing")
	}
}

func ticksOf(ts []tickEv, gid string) []string {
	var out []string
	for _, t := range ts {
		if t.gid == gid {
			out = append(out, t.id+"@"+strconv.Itoa(t.step))
		}
	}
	return out
}

func runC19(c *Ctx) {
	prog := genC19Prog(c)
	w := c.T.Workload
	cs := &c19case{Prog: prog}
	c.Res.Case = cs
	mode := w.Draw(10)
	subSeed := func(i int) uint64 { return c.T.Seed*1000 + uint64(i) }
	check := func(ref, r *c19result) bool {
		c.Res.Sub++
		if r.verdict != nil {
			c.Res.Detail = fmt.Sprintf("[%s mode=%s schedule=%s k=%d] ", prog.Name, cs.Mode, cs.Schedule, cs.K) + c.Res.Detail
			return false
		}
		checkC19(c, cs, ref, r)
		return c.Res.OK
	}
	switch {
	case prog.Intr && mode < 4:
		// (b) synchronous interrupt from inside the program, under a random schedule
		cs.Mode, cs.Schedule = "intr", "seeded"
		ref := simC19(c, prog, simrt.NewTapes(subSeed(0)), -1, false)
		if ref.verdict != nil || ref.err != nil {
			if ref.verdict == nil {
				c.Violation("reference", "un-interrupted run failed: %v", ref.err)
			}
			return
		}
		cs.RefSteps = ref.steps
		r := simC19(c, prog, c.T, -1, true)
		check(ref, r)
	case mode < 7:
		// (a) enumeration: every step of the run is an interrupt point, under
		// the non-preemptive schedule and under seeded random ones.
		cs.Mode = "enumerate"
		scheds := []string{"nonpreemptive", "seeded-1"}
		if c.Thorough() {
			scheds = append(scheds, "seeded-2", "seeded-3")
		}
		for si, name := range scheds {
			cs.Schedule = name
			var refT *simrt.Tapes
			if si == 0 {
				refT = simrt.ReplayTapes(subSeed(si), nil, nil, nil)
			} else {
				refT = simrt.NewTapes(subSeed(si))
			}
			ref := simC19(c, prog, refT, -1, false)
			if ref.verdict != nil || ref.err != nil {
				if ref.verdict == nil {
					c.Violation("reference", "un-interrupted run failed: %v", ref.err)
				}
				return
			}
			cs.RefSteps = ref.steps
			if ref.steps > 1500 {
				continue
			}
			for k := 0; k <= ref.steps; k++ {
				cs.K = k
				r := simC19(c, prog, simrt.ReplayTapes(subSeed(si), nil, ref.sched, nil), k, false)
				if !check(ref, r) {
					return
				}
			}
		}
	default:
		// (c) one interrupt at a random step of a seeded schedule
		cs.Mode, cs.Schedule = "random", "seeded"
		ref := simC19(c, prog, simrt.NewTapes(subSeed(0)), -1, false)
		if ref.verdict != nil || ref.err != nil {
			if ref.verdict == nil {
				c.Violation("reference", "un-interrupted run failed: %v", ref.err)
			}
			return
		}
		cs.RefSteps = ref.steps
		cs.K = c.T.Faults.Range(0, ref.steps)
		r := simC19(c, prog, c.T, cs.K, false)
		check(ref, r)
	}
}
