package h

import (
	"sync"
)

// lspWire is the simulated byte transport between the language client (the
// harness) and the server. The server-side Write must never park: jsonrpc2
// calls it while holding its own (un-instrumented) send mutex, and a goroutine
// parked inside that critical section would make another sender block
// non-durably. It therefore lives in an un-instrumented file and only appends
// to a buffer.
type lspWire struct {
	mu       sync.Mutex
	in       []byte // client -> server, not yet read by the server
	inClosed bool
	out      []byte // server -> client, not yet parsed by the client
	inSig    chan struct{}
	outSig   chan struct{}
	written  int
}

func newLSPWire() *lspWire {
	return &lspWire{inSig: make(chan struct{}, 1), outSig: make(chan struct{}, 1)}
}

// Write is the server's output.
func (w *lspWire) Write(p []byte) (int, error) {
	w.mu.Lock()
	w.out = append(w.out, p...)
	w.written += len(p)
	w.mu.Unlock()
	select {
	case w.outSig <- struct{}{}:
	default:
	}
	return len(p), nil
}

func (w *lspWire) pushIn(p []byte) {
	w.mu.Lock()
	w.in = append(w.in, p...)
	w.mu.Unlock()
	select {
	case w.inSig <- struct{}{}:
	default:
	}
}

func (w *lspWire) closeIn() {
	w.mu.Lock()
	w.inClosed = true
	w.mu.Unlock()
	select {
	case w.inSig <- struct{}{}:
	default:
	}
}

// takeIn moves up to len(p) pending input bytes into p.
func (w *lspWire) takeIn(p []byte) (n int, closed bool) {
	w.mu.Lock()
	defer w.mu.Unlock()
	n = copy(p, w.in)
	w.in = w.in[n:]
	return n, w.inClosed
}

func (w *lspWire) takeOut() []byte {
	w.mu.Lock()
	defer w.mu.Unlock()
	b := w.out
	w.out = nil
	return b
}
