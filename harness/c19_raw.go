package h

import (
	"context"
	"reflect"
	"time"

	"src.elv.sh/pkg/eval"
	"src.elv.sh/zzverif/simrt"
)

// Code in this file runs on the scheduler goroutine (OnStep) and therefore
// must not be instrumented.

// cancelAtStep arranges for cancel to be called by the scheduler when step k
// is reached. fired is set to the fake time of the cancellation.
func cancelAtStep(s *simrt.Sim, k int, cancel context.CancelFunc, fired *cancelInfo) {
	prev := s.OnStep
	s.OnStep = func(step int) error {
		if step == k && !fired.done {
			fired.done = true
			fired.step = step
			fired.at = s.Now()
			s.Note("fault:interrupt")
			cancel()
		}
		if prev != nil {
			return prev(step)
		}
		return nil
	}
}

type cancelInfo struct {
	done bool
	step int
	at   time.Duration
	gid  string // goroutine that cancelled synchronously ("" = the scheduler)
}

// errorLeaves flattens pipeline errors, multi-errors and exceptions into their
// leaf reasons.
func errorLeaves(err error) []error {
	if err == nil {
		return nil
	}
	if exc, ok := err.(eval.Exception); ok {
		if exc.Reason() == nil {
			return nil
		}
		return errorLeaves(exc.Reason())
	}
	if pe, ok := err.(eval.PipelineError); ok {
		var out []error
		for _, e := range pe.Errors {
			out = append(out, errorLeaves(e)...)
		}
		return out
	}
	v := reflect.ValueOf(err)
	if v.Kind() == reflect.Slice {
		var out []error
		for i := 0; i < v.Len(); i++ {
			if e, ok := v.Index(i).Interface().(error); ok {
				out = append(out, errorLeaves(e)...)
			}
		}
		return out
	}
	return []error{err}
}
