package h

import (
	"errors"
	"fmt"
	"net"
	"os"
	"path/filepath"
	"reflect"
	"syscall"
	"testing"
	"testing/synctest"

	"src.elv.sh/zzverif/simrt"
)

// Conformance of the simulated socket namespace with the kernel: the same
// script is run against real unix sockets and against simnet, and the error
// classifications the daemon code relies on must agree.

type sockAPI struct {
	listen func(path string) (net.Listener, error)
	dial   func(path string) (net.Conn, error)
}

func classify(err error) string {
	switch {
	case err == nil:
		return "ok"
	case errors.Is(err, syscall.ECONNREFUSED):
		return "refused"
	case errors.Is(err, syscall.EADDRINUSE):
		return "addrinuse"
	case os.IsNotExist(err), errors.Is(err, syscall.ENOENT):
		return "notexist"
	default:
		return "other:" + err.Error()
	}
}

func exists(path string) string {
	if _, err := os.Lstat(path); err == nil {
		return "present"
	} else if os.IsNotExist(err) {
		return "absent"
	}
	return "error"
}

func simnetScript(api sockAPI, dir string) []string {
	p := filepath.Join(dir, "s")
	var out []string
	add := func(what, v string) { out = append(out, what+"="+v) }
	_, err := api.dial(p)
	add("dial-missing", classify(err))
	l1, err := api.listen(p)
	add("listen", classify(err))
	add("file-after-listen", exists(p))
	_, err = api.listen(p)
	add("double-listen", classify(err))
	c, err := api.dial(p)
	add("dial-live", classify(err))
	if c != nil {
		c.Close()
	}
	// a crashed daemon: listener gone, file stays
	if u, ok := l1.(interface{ SetUnlinkOnClose(bool) }); ok {
		u.SetUnlinkOnClose(false)
	}
	l1.Close()
	add("file-after-crash", exists(p))
	_, err = api.dial(p)
	add("dial-stale", classify(err))
	_, err = api.listen(p)
	add("listen-over-stale", classify(err))
	os.Remove(p)
	_, err = api.dial(p)
	add("dial-after-remove", classify(err))
	// Close unlinks the path
	l2, err := api.listen(p)
	add("listen-again", classify(err))
	l2.Close()
	add("file-after-close", exists(p))
	// Close unlinks BY PATH: it removes a newer listener's socket
	l3, _ := api.listen(p)
	os.Remove(p)
	l4, err := api.listen(p)
	add("listen-after-manual-remove", classify(err))
	l3.Close()
	add("newer-socket-after-older-close", exists(p))
	if l4 != nil {
		l4.Close()
	}
	return out
}

func TestSimnetConformance(t *testing.T) {
	if os.Getenv("VERIF_SIMNET") == "" {
		t.Skip("VERIF_SIMNET not set")
	}
	d1, _ := os.MkdirTemp("", "sn-real-")
	defer os.RemoveAll(d1)
	real := simnetScript(sockAPI{
		listen: func(p string) (net.Listener, error) { return net.Listen("unix", p) },
		dial:   func(p string) (net.Conn, error) { return net.Dial("unix", p) },
	}, d1)
	d2, _ := os.MkdirTemp("", "sn-sim-")
	defer os.RemoveAll(d2)
	var sim []string
	synctest.Test(t, func(t *testing.T) {
		s := simrt.New(simrt.NewTapes(1))
		s.Spawn("script", func() {
			sim = simnetScript(sockAPI{
				listen: func(p string) (net.Listener, error) { return simrt.NetListen("unix", p) },
				dial:   func(p string) (net.Conn, error) { return simrt.NetDial("unix", p) },
			}, d2)
		})
		if v := s.Run(); v != nil {
			t.Fatalf("simulation verdict: %v", v)
		}
	})
	if !reflect.DeepEqual(real, sim) {
		t.Fatalf("simnet does not conform to the kernel:\nreal: %v\nsim:  %v", real, sim)
	}
	fmt.Println("simnet conformance:", real)
}
