package h

import (
	"time"

	bolt "go.etcd.io/bbolt"
)

// The storage engine's lock-retry sleep goes through an instrumented sleep
// (this file is instrumented: time.Sleep below becomes a scheduling point
// before and a re-park after), so that a goroutine waking from it does not run
// concurrently with the scheduled one.
func init() {
	bolt.VerifSleep = func(d time.Duration) { time.Sleep(d) }
}
