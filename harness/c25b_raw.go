package h

import "runtime/debug"

// checkImage runs checkImageInner with memory faults turned into a recorded
// violation: reading a truncated database through its memory map raises
// SIGBUS, which kills a real shell.
func checkImage(c *Ctx, dir string, img []byte, allowed []*storeModel, maxAcked int, what string) (m *storeModel, ok bool) {
	old := debug.SetPanicOnFault(true)
	defer debug.SetPanicOnFault(old)
	defer func() {
		if r := recover(); r != nil {
			c.Violation("reopen", "%s: reopening the database after the crash failed: the process crashes with a fatal memory fault while reading the reopened file (%v)", what, r)
			m, ok = nil, false
		}
	}()
	return checkImageInner(c, dir, img, allowed, maxAcked, what)
}
