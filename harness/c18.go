package h

import (
	"bufio"
	"errors"
	"fmt"
	"io"
	"os"
	"strconv"
	"strings"
	"sync"

	"src.elv.sh/pkg/eval"
	"src.elv.sh/pkg/eval/errs"
	"src.elv.sh/pkg/eval/vals"
	"src.elv.sh/pkg/parse"
	"src.elv.sh/pkg/strutil"
	"src.elv.sh/zzverif/simrt"
)

// ---- C18: pipelines deliver exactly once, in order, never deadlock ---------

func init() { props["C18"] = runC18 }

// band is the model of one band of a stream: any order-preserving merge of
// the listed sequences (one sequence = exactly that sequence).
type band [][]string

func (b band) total() int {
	n := 0
	for _, s := range b {
		n += len(s)
	}
	return n
}

func (b band) nonEmpty() band {
	var r band
	for _, s := range b {
		if len(s) > 0 {
			r = append(r, s)
		}
	}
	return r
}

type stream struct{ v, b band }

// stage is one generated pipeline stage.
type stage struct {
	Kind string `json:"kind"`
	N    int    `json:"n,omitempty"`   // values / count / limit
	M    int    `json:"m,omitempty"`   // byte lines
	Pat  int    `json:"pat,omitempty"` // interleaving pattern of a source
	Fail int    `json:"fail,omitempty"`
	NoEOL bool  `json:"no_eol,omitempty"` // the last byte line has no terminator
	// byte line number LongAt-1 of a source is LongLen bytes long (longer than
	// any buffer a line reader may use)
	LongAt  int `json:"long_at,omitempty"`
	LongLen int `json:"long_len,omitempty"`
	Tag  string `json:"tag,omitempty"`
	Text string `json:"text"`
	// model results
	in       stream
	out      stream
	outcome  string // "" | fail tag
	optional bool   // failure may be pre-empted by reader-gone
	early    bool   // exits without reading all input
}

type c18case struct {
	Stages  []*stage `json:"stages"`
	Code    string   `json:"code"`
	PipeCap int      `json:"pipe_cap"`
	OutPort string   `json:"out_port,omitempty"`
	Nested  string   `json:"nested,omitempty"`
}

type c18run struct {
	c    *Ctx
	cs   *c18case
	rec  *recorder
	errs []string
}

func seqOf(prefix string, n int) []string {
	s := make([]string, n)
	for i := range s {
		s[i] = prefix + strconv.Itoa(i)
	}
	return s
}

func genC18(c *Ctx) *c18case {
	w := c.T.Workload
	cs := &c18case{}
	big := w.Chance(1, 8)
	sz := func(max int) int {
		if c.Thorough() && big {
			max *= 12
		}
		switch w.Draw(4) {
		case 0:
			return w.Range(0, 3)
		case 1:
			return w.Range(0, max/4)
		default:
			return w.Range(0, max)
		}
	}
	maxItems := 60
	nst := w.Range(2, 6)
	cs.PipeCap = []int{4096, 4096, 65536}[w.Draw(3)]
	var cur stream
	id := 0
	tag := func() string { id++; return "s" + strconv.Itoa(id) }
	// producer
	{
		st := &stage{}
		t := tag()
		switch w.Draw(6) {
		case 0, 1, 2:
			st.Kind, st.N, st.M, st.Pat, st.Tag = "src", sz(maxItems), sz(maxItems), w.Draw(4), t
			switch w.Draw(4) {
			case 0:
				st.M = 0
			case 1:
				st.N = 0
			}
			if w.Chance(1, 6) {
				st.Fail = 1 + w.Draw(st.N+st.M+1)
			}
			if st.M > 0 && w.Chance(1, 8) {
				st.LongAt = 1 + w.Draw(st.M)
				st.LongLen = []int{5000, 70000, 200000}[w.Draw(3)]
			}
			st.Text = fmt.Sprintf("vsrc %d", 0)
		case 3:
			st.Kind, st.N = "range", sz(maxItems*2)
			st.Text = fmt.Sprintf("range %d", st.N)
		case 4:
			st.Kind, st.M, st.Tag = "echoes", sz(maxItems), t
			st.Text = fmt.Sprintf("for i [(range %d)] { echo %sb$i }", st.M, t)
		default:
			st.Kind, st.N, st.Tag = "putall", sz(maxItems), t
			st.Text = fmt.Sprintf("put (range %d)", st.N)
		}
		cs.Stages = append(cs.Stages, st)
	}
	for i := 1; i < nst; i++ {
		st := &stage{}
		t := tag()
		last := i == nst-1
	again:
		k := w.Draw(23)
		switch k {
		case 20:
			// a stage whose input is redirected away from the pipe: it never
			// reads what the previous stage writes
			st.Kind, st.Text = "nop", "nop < /dev/null"
		case 21:
			st.Kind, st.Text = "countnull", "count < /dev/null"
		case 22:
			// a producer in the middle of the pipeline that ignores its input
			// and writes more than the buffers hold
			st.Kind, st.N = "midrange", sz(maxItems*2)
			st.Text = fmt.Sprintf("range %d", st.N)
		case 0, 1:
			st.Kind, st.Text = "relay", fmt.Sprintf("vrelay %d", i)
		case 2, 3:
			st.Kind, st.Text = "eachput", "each {|x| put $x }"
		case 4:
			st.Kind, st.Text = "eachecho", "each {|x| echo $x }"
		case 5:
			st.Kind, st.N = "take", sz(maxItems)
			st.Text = fmt.Sprintf("take %d", st.N)
		case 6:
			st.Kind, st.N = "drop", sz(maxItems)
			st.Text = fmt.Sprintf("drop %d", st.N)
		case 7:
			st.Kind, st.Text = "fromlines", "from-lines"
		case 8:
			st.Kind, st.Text = "tolines", "to-lines"
		case 9:
			st.Kind, st.Text = "onlybytes", "only-bytes"
		case 10:
			st.Kind, st.Text = "onlyvalues", "only-values"
		case 11:
			st.Kind, st.Text = "closure", "{ each {|x| put $x } }"
		case 12:
			st.Kind, st.Text = "count", "count"
		case 13:
			st.Kind, st.N, st.Text = "sinkv", sz(8), fmt.Sprintf("vsink %d", i)
		case 14:
			st.Kind, st.N, st.Text = "sinkb", sz(8), fmt.Sprintf("vsink %d", i)
		case 15:
			if w.Chance(1, 2) {
				st.Kind, st.Text = "nop", "nop"
			} else {
				st.Kind, st.Text = "nop", "{ }"
			}
		case 16:
			st.Kind, st.Tag, st.Text = "failstart", t, "fail "+t
		case 17:
			st.Kind, st.N, st.Tag, st.Text = "failafter", sz(10), t, fmt.Sprintf("vfailafter %d", i)
		case 18:
			st.Kind, st.N, st.Tag = "ignput", w.Range(0, 4), t
			st.Text = "put"
			for j := 0; j < st.N; j++ {
				st.Text += fmt.Sprintf(" %sv%d", t, j)
			}
			if st.N == 0 {
				st.Text = "nop"
			}
		default:
			st.Kind, st.Text = "sinkall", fmt.Sprintf("vsink %d", i)
		}
		_ = last
		cs.Stages = append(cs.Stages, st)
		if !modelC18(cs.Stages, i) {
			// stage not applicable to the model stream at this point: redraw
			cs.Stages = cs.Stages[:i]
			st = &stage{}
			goto again
		}
	}
	_ = cur
	var texts []string
	for _, st := range cs.Stages {
		texts = append(texts, st.Text)
	}
	cs.Code = strings.Join(texts, " | ")
	switch w.Draw(5) {
	case 0:
		cs.Nested = "closure"
		cs.Code = "{ " + cs.Code + " }"
	case 1:
		cs.Nested = "fn"
		cs.Code = "fn f { " + cs.Code + " }; f"
	}
	cs.OutPort = []string{"capture", "capture", "capture", "valuecapture", "stringcapture", "fileport"}[w.Draw(6)]
	if lo := cs.Stages[len(cs.Stages)-1].out; cs.OutPort == "fileport" && lo.v.total() > 0 && lo.b.total() > 0 {
		// The file port writes a value as three separate writes (prefix, text,
		// newline) to the same file the byte band goes to; with both bands in
		// use, lines legitimately interleave mid-line on a terminal.
		cs.OutPort = "capture"
	}
	if cs.Stages[0].Kind == "src" && w.Chance(1, 3) && (cs.OutPort == "capture" || cs.OutPort == "valuecapture") {
		// (the string-capture port and the file port are line-oriented sinks
		// for the terminal, where an unterminated last line is not a line)
		cs.Stages[0].NoEOL = true
	}
	return cs
}

// modelC18 computes the model of stage i from stage i-1 (or the producer for
// i == 0 as a side effect of i == 1). It returns false when the stage cannot
// be modelled on its input stream (the generator then picks another stage).
func modelC18(sts []*stage, i int) bool {
	if i == 1 {
		p := sts[0]
		switch p.Kind {
		case "src":
			// emits items in pattern order (and fails after Fail items)
			vs, bs := srcPlan(p)
			if p.Fail > 0 {
				p.outcome = p.Tag
			}
			p.out = stream{band{vs}.nonEmpty(), band{bs}.nonEmpty()}
		case "range", "putall":
			p.out = stream{v: band{seqOf("", p.N)}.nonEmpty()}
		case "echoes":
			p.out = stream{b: band{seqOf(p.Tag+"b", p.M)}.nonEmpty()}
		}
	}
	st := sts[i]
	in := sts[i-1].out
	st.in = in
	merged := append(append(band{}, in.v...), in.b...)
	switch st.Kind {
	case "relay":
		st.out = in
	case "eachput", "closure":
		st.out = stream{v: merged}
	case "eachecho", "tolines":
		st.out = stream{b: merged}
	case "take", "drop":
		if len(merged) > 1 {
			return false
		}
		var seq []string
		if len(merged) == 1 {
			seq = merged[0]
		}
		k := st.N
		if k > len(seq) {
			k = len(seq)
		}
		if st.Kind == "take" {
			st.out = stream{v: band{seq[:k]}.nonEmpty()}
		} else {
			st.out = stream{v: band{seq[k:]}.nonEmpty()}
		}
	case "fromlines":
		if in.v.total() > 0 {
			// from-lines never reads the value band; with a non-empty value
			// band the pipeline may hang by its own semantics, not by a defect
			return false
		}
		st.out = stream{v: in.b}
	case "onlybytes":
		st.out = stream{b: in.b}
	case "onlyvalues":
		st.out = stream{v: in.v}
	case "count":
		st.out = stream{v: band{{strconv.Itoa(merged.total())}}}
	case "sinkall":
		st.out = stream{}
	case "sinkv":
		if in.b.total() > 0 {
			return false // single-band readers only where the other band is empty (see fromlines)
		}
		if in.v.total() < st.N {
			st.N = in.v.total()
		}
		st.early = in.v.total() > st.N || in.b.total() > 0
		st.out = stream{}
	case "sinkb":
		if in.v.total() > 0 {
			return false
		}
		if in.b.total() < st.N {
			st.N = in.b.total()
		}
		st.early = in.b.total() > st.N || in.v.total() > 0
		st.out = stream{}
	case "nop":
		st.early = merged.total() > 0
		st.out = stream{}
	case "countnull":
		st.early = merged.total() > 0
		st.out = stream{v: band{{"0"}}}
	case "midrange":
		st.early = merged.total() > 0
		st.out = stream{v: band{seqOf("", st.N)}.nonEmpty()}
	case "failstart":
		st.early = merged.total() > 0
		st.outcome = st.Tag
		st.out = stream{}
	case "failafter":
		// reads N values from the value band, then fails
		if in.b.total() > 0 {
			return false
		}
		if in.v.total() >= st.N {
			st.outcome = st.Tag
			st.early = in.v.total() > st.N || in.b.total() > 0
		} else {
			st.early = in.b.total() > 0
		}
		st.out = stream{}
	case "ignput":
		st.early = merged.total() > 0
		st.out = stream{v: band{seqOf(st.Tag+"v", st.N)}.nonEmpty()}
	}
	return true
}

// srcPlan lists the value and byte items a failing source emits before failing.
func srcPlan(p *stage) (vs, bs []string) {
	for k, it := range srcOrder(p) {
		if p.Fail > 0 && k >= p.Fail-1 {
			break
		}
		if it.val {
			vs = append(vs, it.s)
		} else {
			bs = append(bs, it.s)
		}
	}
	return
}

type srcItem struct {
	val bool
	s   string
}

func srcOrder(p *stage) []srcItem {
	var items []srcItem
	vi, bi := 0, 0
	emitV := func(k int) {
		for ; k > 0 && vi < p.N; k-- {
			items = append(items, srcItem{true, p.Tag + "v" + strconv.Itoa(vi)})
			vi++
		}
	}
	emitB := func(k int) {
		for ; k > 0 && bi < p.M; k-- {
			l := p.Tag + "b" + strconv.Itoa(bi)
			if p.LongAt == bi+1 && p.LongLen > len(l) {
				l += strings.Repeat("x", p.LongLen-len(l))
			}
			items = append(items, srcItem{false, l})
			bi++
		}
	}
	switch p.Pat {
	case 0:
		emitV(p.N)
		emitB(p.M)
	case 1:
		emitB(p.M)
		emitV(p.N)
	case 2:
		for vi < p.N || bi < p.M {
			emitV(1)
			emitB(1)
		}
	default:
		for vi < p.N || bi < p.M {
			emitV(7)
			emitB(5)
		}
	}
	return items
}

type tagError struct{ tag string }

func (e tagError) Error() string { return "vfail:" + e.tag }

// Harness builtins --------------------------------------------------------

func (r *c18run) vsrc(fm *eval.Frame, id int) error {
	p := r.cs.Stages[id]
	vout, bout := fm.ValueOutput(), fm.ByteOutput()
	order := srcOrder(p)
	// index of the last byte line this source will emit (it may be left
	// without a line terminator: readers must still deliver it)
	lastB := -1
	for k, it := range order {
		if p.Fail > 0 && k >= p.Fail-1 {
			break
		}
		if !it.val {
			lastB = k
		}
	}
	for k, it := range order {
		if p.Fail > 0 && k >= p.Fail-1 {
			return tagError{p.Tag}
		}
		var err error
		if it.val {
			err = vout.Put(it.s)
		} else if p.NoEOL && k == lastB {
			_, err = bout.WriteString(it.s)
		} else {
			_, err = bout.WriteString(it.s + "\n")
		}
		if err != nil {
			if _, ok := err.(errs.ReaderGone); ok {
				r.c.Probe("reader-gone-observed")
			}
			return err
		}
	}
	if p.Fail > 0 {
		return tagError{p.Tag}
	}
	return nil
}

func readLines(rd io.Reader, f func(string) bool) {
	br := bufio.NewReader(rd)
	for {
		line, err := br.ReadString('\n')
		if line != "" {
			if !f(strutil.ChopLineEnding(line)) {
				return
			}
		}
		if err != nil {
			return
		}
	}
}

func (r *c18run) vrelay(fm *eval.Frame, id int) error {
	var wg sync.WaitGroup
	var e1, e2 error
	wg.Add(2)
	vout, bout := fm.ValueOutput(), fm.ByteOutput()
	in := fm.InputChan()
	inf := fm.InputFile()
	go func() {
		defer wg.Done()
		// Like take and each, the relay keeps draining its input after its
		// own reader has gone, so that it never leaves one band unread while
		// waiting for the other.
		for v := range in {
			if e1 != nil {
				continue
			}
			if err := vout.Put(v); err != nil {
				e1 = err
			}
		}
	}()
	go func() {
		defer wg.Done()
		readLines(inf, func(l string) bool {
			if e2 != nil {
				return true
			}
			if _, err := bout.WriteString(l + "\n"); err != nil {
				e2 = err
			}
			return true
		})
	}()
	wg.Wait()
	if e1 != nil {
		return e1
	}
	return e2
}

func (r *c18run) vsink(fm *eval.Frame, id int) error {
	st := r.cs.Stages[id]
	key := strconv.Itoa(id)
	switch st.Kind {
	case "sinkv":
		in := fm.InputChan()
		for k := 0; k < st.N; k++ {
			v, ok := <-in
			if !ok {
				break
			}
			r.rec.add(key+"v", vals.ToString(v))
		}
		return nil
	case "sinkb":
		k := 0
		if st.N > 0 {
			readLines(fm.InputFile(), func(l string) bool {
				r.rec.add(key+"b", l)
				k++
				return k < st.N
			})
		}
		return nil
	}
	var wg sync.WaitGroup
	wg.Add(2)
	in := fm.InputChan()
	inf := fm.InputFile()
	go func() {
		defer wg.Done()
		for v := range in {
			r.rec.add(key+"v", vals.ToString(v))
		}
	}()
	go func() {
		defer wg.Done()
		readLines(inf, func(l string) bool { r.rec.add(key+"b", l); return true })
	}()
	wg.Wait()
	return nil
}

func (r *c18run) vfailafter(fm *eval.Frame, id int) error {
	st := r.cs.Stages[id]
	in := fm.InputChan()
	for k := 0; k < st.N; k++ {
		if _, ok := <-in; !ok {
			return nil
		}
	}
	return tagError{st.Tag}
}

// checkMerge checks that got is an order-preserving merge of the sequences
// of b (a prefix of one if prefix is set).
func checkMerge(got []string, b band, prefix bool) error {
	type loc struct{ s, i int }
	where := map[string]loc{}
	for si, s := range b {
		for i, it := range s {
			where[it+"\x00"+strconv.Itoa(si)] = loc{si, i}
		}
	}
	pos := make([]int, len(b))
	for gi, it := range got {
		found := false
		for si := range b {
			if pos[si] < len(b[si]) && b[si][pos[si]] == it {
				pos[si]++
				found = true
				break
			}
		}
		if !found {
			return fmt.Errorf("item #%d %q is lost-predecessor/duplicated/reordered/unknown (expected next of %v)", gi, it, nextOf(b, pos))
		}
	}
	if !prefix {
		for si := range b {
			if pos[si] != len(b[si]) {
				return fmt.Errorf("lost: sequence %d delivered %d of %d items (next missing %q)", si, pos[si], len(b[si]), b[si][pos[si]])
			}
		}
	}
	return nil
}

func nextOf(b band, pos []int) []string {
	var r []string
	for si := range b {
		if pos[si] < len(b[si]) {
			r = append(r, b[si][pos[si]])
		}
	}
	return r
}

func runC18(c *Ctx) {
	c.Bubble(func() {
		cs := genC18(c)
		c.Res.Case = cs
		r := &c18run{c: c, cs: cs, rec: newRecorder()}
		s := simrt.New(c.T)
		s.EnableHB()
		s.KeepTrace = c.Knobs["trace"] != ""
		simrt.PipeCap.Store(int64(cs.PipeCap))
		var evalErr error
		var outVals []any
		var outBytes []byte
		done := false
		s.Spawn("main", func() {
			ev := eval.NewEvaler()
			ev.ExtendGlobal(eval.BuildNs().AddGoFns(map[string]any{
				"vsrc": r.vsrc, "vrelay": r.vrelay, "vsink": r.vsink, "vfailafter": r.vfailafter,
			}))
			errPort, collectErr, err := eval.CapturePort()
			if err != nil {
				panic(err)
			}
			// The final output goes through one of the kinds of output port the
			// interpreter offers.
			var outPort *eval.Port
			var finish func()
			switch cs.OutPort {
			case "valuecapture":
				p, collect, err := eval.ValueCapturePort()
				if err != nil {
					panic(err)
				}
				outPort, finish = p, func() { outVals = collect() }
			case "stringcapture":
				p, collect, err := eval.StringCapturePort()
				if err != nil {
					panic(err)
				}
				outPort, finish = p, func() {
					for _, l := range collect() {
						outVals = append(outVals, strings.TrimPrefix(l, "▶ "))
					}
				}
			case "fileport":
				// what the shell uses for the terminal: values are written to
				// the file as prefixed lines by a relay goroutine
				rd, wr, err := os.Pipe()
				if err != nil {
					panic(err)
				}
				p, cleanup := eval.FilePort(wr, "▶ ")
				var lines []string
				readerDone := make(chan struct{})
				go func() {
					readLines(rd, func(l string) bool { lines = append(lines, l); return true })
					rd.Close()
					close(readerDone)
				}()
				outPort, finish = p, func() {
					cleanup()
					wr.Close()
					<-readerDone
					for _, l := range lines {
						l = strings.TrimPrefix(l, "▶ ")
						if strings.HasPrefix(l, "(num ") {
							l = strings.TrimSuffix(strings.TrimPrefix(l, "(num "), ")")
						}
						outVals = append(outVals, l)
					}
				}
			default:
				p, collect, err := eval.CapturePort()
				if err != nil {
					panic(err)
				}
				outPort, finish = p, func() { outVals, outBytes = collect() }
			}
			evalErr = ev.Eval(parse.Source{Name: "[c18]", Code: cs.Code},
				eval.EvalCfg{Ports: []*eval.Port{eval.DummyInputPort, outPort, errPort}})
			finish()
			collectErr()
			done = true
		})
		v := s.Run()
		c.FinishSim(s, v)
		if v == nil {
			c.ReportRaces(s)
		}
		if v != nil {
			return
		}
		if !done {
			c.Violation("deadlock", "evaluation did not return")
			return
		}
		checkC18(c, r, evalErr, outVals, outBytes)
	})
}

func checkC18(c *Ctx, r *c18run, evalErr error, outVals []any, outBytes []byte) {
	cs := r.cs
	n := len(cs.Stages)
	// cut[i]: some later stage exits early, so stage i may legitimately stop
	// early with reader-gone.
	cut := make([]bool, n)
	for i := n - 2; i >= 0; i-- {
		cut[i] = cut[i+1] || cs.Stages[i+1].early
	}
	anyEarly := false
	for i, st := range cs.Stages {
		key := strconv.Itoa(i)
		switch st.Kind {
		case "sinkall":
			gv, gb := r.rec.get(key+"v"), r.rec.get(key+"b")
			if err := checkMerge(gv, st.in.v, false); err != nil {
				c.Violation("delivery", "stage %d (sink, reads to end) value band: %v", i, err)
			}
			if err := checkMerge(gb, st.in.b, false); err != nil {
				c.Violation("delivery", "stage %d (sink, reads to end) byte band: %v", i, err)
			}
		case "sinkv":
			gv := r.rec.get(key + "v")
			if err := checkMerge(gv, st.in.v, true); err != nil {
				c.Violation("delivery", "stage %d (early-exit sink) value band: %v", i, err)
			}
			if len(gv) != st.N {
				c.Violation("delivery", "stage %d read %d values, expected %d", i, len(gv), st.N)
			}
		case "sinkb":
			gb := r.rec.get(key + "b")
			if err := checkMerge(gb, st.in.b, true); err != nil {
				c.Violation("delivery", "stage %d (early-exit sink) byte band: %v", i, err)
			}
			if len(gb) != st.N {
				c.Violation("delivery", "stage %d read %d lines, expected %d", i, len(gb), st.N)
			}
		}
		if st.early {
			anyEarly = true
		}
	}
	if anyEarly {
		c.Probe("early-exit-case")
	}
	// Final output = output of the last stage, read to the end by the capture.
	last := cs.Stages[n-1]
	var gv []string
	for _, v := range outVals {
		gv = append(gv, vals.ToString(v))
	}
	var gb []string
	if len(outBytes) > 0 {
		gb = strings.Split(strings.TrimSuffix(string(outBytes), "\n"), "\n")
	}
	if cs.OutPort != "" && cs.OutPort != "capture" {
		// The other kinds of output port deliver both bands in one sequence
		// (the harness has normalised it to plain item texts in gv): it must be
		// an order-preserving merge of the two bands.
		both := append(append(band{}, last.out.v...), last.out.b...)
		if err := checkMerge(gv, both, false); err != nil {
			c.Violation("delivery", "final output through a %s port: %v", cs.OutPort, err)
		}
	} else {
		if err := checkMerge(gv, last.out.v, false); err != nil {
			c.Violation("delivery", "final value output: %v", err)
		}
		if err := checkMerge(gb, last.out.b, false); err != nil {
			c.Violation("delivery", "final byte output: %v", err)
		}
	}
	// Error composition.
	want := make([][]string, n) // allowed outcomes per stage
	for i, st := range cs.Stages {
		switch {
		case st.outcome == "":
			want[i] = []string{""}
		case st.Kind == "src" && cut[i]:
			want[i] = []string{"", st.outcome}
		default:
			want[i] = []string{st.outcome}
		}
	}
	got := make([]string, n)
	describe := func(e error) string {
		if e == nil {
			return ""
		}
		var te tagError
		if errors.As(e, &te) {
			return te.tag
		}
		if exc, ok := e.(eval.Exception); ok {
			switch rsn := exc.Reason().(type) {
			case nil:
				return ""
			case tagError:
				return rsn.tag
			case eval.FailError:
				return vals.ToString(rsn.Content)
			case errs.ReaderGone:
				return "READER-GONE"
			default:
				return "OTHER:" + rsn.Error()
			}
		}
		return "OTHER:" + e.Error()
	}
	if evalErr != nil {
		exc, ok := evalErr.(eval.Exception)
		if !ok {
			c.Violation("errors", "evaluation returned a non-exception error: %v", evalErr)
			return
		}
		if pe, ok := exc.Reason().(eval.PipelineError); ok {
			if len(pe.Errors) != n {
				c.Violation("errors", "pipeline error has %d entries for %d stages", len(pe.Errors), n)
				return
			}
			cnt := 0
			for i, e := range pe.Errors {
				got[i] = describe(e)
				if got[i] != "" {
					cnt++
				}
			}
			if cnt < 2 {
				c.Violation("errors", "pipeline error with %d failing entries", cnt)
			}
		} else {
			// single exception: attribute to the unique stage that may fail with it
			d := describe(exc)
			placed := false
			for i := range want {
				for _, w := range want[i] {
					if w == d && d != "" && !placed {
						got[i] = d
						placed = true
					}
				}
			}
			if !placed {
				c.Violation("errors", "evaluation returned %q (%v), which no stage should produce; expected per stage %v", d, evalErr, want)
				return
			}
		}
	}
	for i := range want {
		ok := false
		for _, w := range want[i] {
			if w == got[i] {
				ok = true
			}
		}
		if !ok {
			if got[i] == "READER-GONE" {
				c.Violation("errors", "reader-gone reported as an error of stage %d", i)
			} else {
				c.Violation("errors", "stage %d outcome %q, expected one of %q (all stages got %q)", i, got[i], want[i], got)
			}
		}
	}
	c.Res.Trivial = c.Res.Choices == 0
}
