package h

import (
	"fmt"
	"runtime/debug"

	"src.elv.sh/pkg/store"
)

// openGuarded opens the store, turning a memory fault inside the storage
// engine (a truncated file is mapped beyond its end: SIGBUS, which would kill
// a real shell) into an error, so that the simulation can record it and go on.
func openGuarded(path string) (st store.DBStore, err error) {
	old := debug.SetPanicOnFault(true)
	defer debug.SetPanicOnFault(old)
	defer func() {
		if r := recover(); r != nil {
			st = nil
			err = fmt.Errorf("the process crashes with a fatal memory fault while opening the file (%v)", r)
		}
	}()
	return store.NewStore(path)
}
