package h

import (
	"sync"
	"time"
)

func realNow() int64 { return time.Now().Unix() }

// recorder is a thread-safe event log used by harness builtins. It uses a
// plain (un-instrumented) mutex on purpose: recording must not add scheduling
// points or perturb the schedule.
type recorder struct {
	mu   sync.Mutex
	seqs map[string][]string
	ints map[string]int
}

func newRecorder() *recorder {
	return &recorder{seqs: map[string][]string{}, ints: map[string]int{}}
}

func (r *recorder) add(key, item string) {
	r.mu.Lock()
	r.seqs[key] = append(r.seqs[key], item)
	r.mu.Unlock()
}

func (r *recorder) get(key string) []string {
	r.mu.Lock()
	defer r.mu.Unlock()
	return append([]string(nil), r.seqs[key]...)
}

func (r *recorder) inc(key string, d int) int {
	r.mu.Lock()
	defer r.mu.Unlock()
	r.ints[key] += d
	return r.ints[key]
}

func (r *recorder) setMax(key string, v int) {
	r.mu.Lock()
	if v > r.ints[key] {
		r.ints[key] = v
	}
	r.mu.Unlock()
}

func (r *recorder) getInt(key string) int {
	r.mu.Lock()
	defer r.mu.Unlock()
	return r.ints[key]
}
