package h

import (
	"os"
	"sort"
	"strings"
)

// fdSnapshot returns the multiset of open descriptors of this process as
// sorted "fd->target" strings, without the descriptor used to read the table.
func fdSnapshot() []string {
	d, err := os.Open("/proc/self/fd")
	if err != nil {
		return nil
	}
	names, _ := d.Readdirnames(-1)
	self := int(d.Fd())
	var out []string
	for _, n := range names {
		t, err := os.Readlink("/proc/self/fd/" + n)
		if err != nil {
			continue
		}
		if n == itoa(self) {
			continue
		}
		out = append(out, n+"->"+t)
	}
	d.Close()
	sort.Strings(out)
	return out
}

func itoa(i int) string {
	if i == 0 {
		return "0"
	}
	var b []byte
	for i > 0 {
		b = append([]byte{byte('0' + i%10)}, b...)
		i /= 10
	}
	return string(b)
}

// fdDiff lists entries of after that are not in before (leaked) and the ones
// that disappeared.
func fdDiff(before, after []string) (leaked, gone []string) {
	b := map[string]int{}
	for _, x := range before {
		b[x]++
	}
	for _, x := range after {
		if b[x] > 0 {
			b[x]--
		} else {
			leaked = append(leaked, x)
		}
	}
	for x, n := range b {
		for ; n > 0; n-- {
			gone = append(gone, x)
		}
	}
	sort.Strings(gone)
	return
}

var _ = strings.Join
