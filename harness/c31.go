package h

import (
	"fmt"
	"io"
	"time"
	"unicode/utf8"

	"src.elv.sh/pkg/cli/term"
	"src.elv.sh/pkg/ui"
)

// ---- C31: terminal input decoding is total; no sequence blocks past its
// timeout; plain text is decoded exactly -----------------------------------------
//
// ttysim: the byte source of the real decoder is a simulated terminal line on
// the fake clock of a synctest bubble: every byte has an arrival time.

func init() { props["C31"] = runC31 }

type ttyByte struct {
	at time.Duration // arrival, relative to the start of the run
	b  byte
}

type ttySource struct {
	start   time.Time
	bytes   []ttyByte
	next    int
	final   error // error returned once the stream is exhausted
	waited  int   // number of un-timed waits
	timedOK int   // reads with a timeout that returned a byte
	timeout int   // reads that timed out
	// per call bookkeeping
	untimedInCall int
	readsInCall   int
	firstAt       time.Duration // when the first byte of the current call was obtained
	violation     string
}

func (s *ttySource) now() time.Duration { return time.Since(s.start) }

func (s *ttySource) ReadByteWithTimeout(d time.Duration) (byte, error) {
	s.readsInCall++
	if d < 0 {
		s.untimedInCall++
		if s.readsInCall > 1 {
			s.violation = fmt.Sprintf("read #%d of one decoding call waits without a timeout (only the first read of a call may)", s.readsInCall)
		}
	}
	if s.next >= len(s.bytes) {
		if d >= 0 {
			time.Sleep(d)
			s.timeout++
			return 0, term.VerifErrTimeout
		}
		return 0, s.final
	}
	nb := s.bytes[s.next]
	wait := nb.at - s.now()
	if wait > 0 {
		if d >= 0 && wait > d {
			time.Sleep(d)
			s.timeout++
			return 0, term.VerifErrTimeout
		}
		if d < 0 {
			s.waited++
		}
		time.Sleep(wait)
	}
	if d >= 0 {
		s.timedOK++
	}
	if s.readsInCall == 1 {
		s.firstAt = s.now()
	}
	s.next++
	return nb.b, nil
}

type c31case struct {
	Kind   string   `json:"kind"` // escape-soup | plain-text
	Bytes  string   `json:"bytes_hex"`
	GapsUS []int64  `json:"gaps_us"`
	Events []string `json:"events,omitempty"`
}

func runC31(c *Ctx) {
	w := c.T.Workload
	keyT, utfT := term.VerifTimeouts()
	cs := &c31case{}
	c.Res.Case = cs
	var data []byte
	var gaps []time.Duration // gap before each byte
	plain := w.Chance(1, 3)
	// gap drawn around the timeouts (never exactly equal: odd microseconds)
	gap := func() time.Duration {
		switch w.Draw(10) {
		case 0, 1, 2, 3:
			return 0
		case 4, 5:
			return time.Duration(1+2*w.Draw(400)) * time.Microsecond // well below
		case 6:
			return keyT - time.Duration(1+2*w.Draw(50))*time.Microsecond // just under
		case 7:
			return keyT + time.Duration(1+2*w.Draw(50))*time.Microsecond // just over
		case 8:
			return time.Duration(1+2*w.Draw(20000)) * time.Microsecond
		default:
			return time.Duration(1+w.Draw(3)) * time.Second // long stall
		}
	}
	var wantRunes []rune
	if plain {
		cs.Kind = "plain-text"
		n := w.Range(0, 40)
		for i := 0; i < n; i++ {
			var r rune
			switch w.Draw(6) {
			case 0, 1, 2:
				r = rune(0x20 + w.Draw(0x7f-0x20)) // printable ASCII
			case 3:
				r = rune(0xa0 + w.Draw(0x700)) // 2-byte
			case 4:
				r = rune(0x800 + w.Draw(0xd000-0x800)) // 3-byte, below surrogates
			default:
				r = rune(0x10000 + w.Draw(0xf0000)) // 4-byte
			}
			wantRunes = append(wantRunes, r)
			var buf [4]byte
			k := utf8.EncodeRune(buf[:], r)
			for j := 0; j < k; j++ {
				data = append(data, buf[j])
				if j == 0 {
					gaps = append(gaps, gap()) // arbitrary between characters
				} else {
					// inside a character: below the UTF-8 timeout (the timing
					// assumption under which "decoded exactly" is meaningful)
					gaps = append(gaps, time.Duration(2*w.Draw(int(utfT/time.Microsecond/2)-2))*time.Microsecond)
				}
			}
		}
	} else {
		cs.Kind = "escape-soup"
		n := w.Range(0, 60)
		alphabet := []byte{0x1b, 0x1b, 0x1b, '[', '[', 'O', '<', 'M', 'm', '~', ';', ';', 'R', 'A', 'Z', 'P', '0', '1', '2', '5', '9', '0', 0x00, 0x7f, 0x80, 0xc3, 0xe2, 0xf0, 0xff, 'a', ' ', '\r', 0x9b}
		for i := 0; i < n; i++ {
			if w.Chance(1, 8) {
				data = append(data, byte(w.Draw(256)))
			} else {
				data = append(data, alphabet[w.Draw(len(alphabet))])
			}
			gaps = append(gaps, gap())
		}
	}
	cs.Bytes = fmt.Sprintf("%x", data)
	for _, g := range gaps {
		cs.GapsUS = append(cs.GapsUS, int64(g/time.Microsecond))
	}
	final := io.EOF
	c.Bubble(func() {
		src := &ttySource{start: time.Now(), final: final}
		t := time.Duration(0)
		for i, b := range data {
			t += gaps[i]
			src.bytes = append(src.bytes, ttyByte{t, b})
		}
		lastArrival := t
		timeout := keyT
		if utfT > timeout {
			timeout = utfT
		}
		var events []term.Event
		calls := 0
		for {
			calls++
			if calls > len(data)+2 {
				c.Violation("progress", "more decoding calls (%d) than bytes+1 (%d) without reaching the end of the stream", calls, len(data)+1)
				return
			}
			src.untimedInCall, src.readsInCall = 0, 0
			before := src.next
			startAt := src.now()
			var ev term.Event
			var err error
			func() {
				defer func() {
					if r := recover(); r != nil {
						c.Violation("crash", "decoder panicked after consuming %d bytes: %v", src.next, r)
					}
				}()
				ev, err = term.VerifReadEvent(src)
			}()
			if !c.Res.OK {
				return
			}
			if src.violation != "" {
				c.Violation("timeout", "call #%d (bytes %d..%d): %s", calls, before, src.next, src.violation)
				return
			}
			consumed := src.next - before
			// No call may block past its timeouts: once the last byte has
			// arrived, a call returns within (bytes consumed + 1) x timeout;
			// in general, after its first byte a call lasts at most
			// (consumed + 1) x timeout plus the arrival gaps it legitimately waited for.
			endAt := src.now()
			if startAt >= lastArrival && endAt-startAt > time.Duration(consumed+1)*timeout {
				c.Violation("timeout", "call #%d started after the last byte had arrived and took %v of simulated time (consumed %d bytes, timeout %v)", calls, endAt-startAt, consumed, timeout)
				return
			}
			if consumed > 0 && endAt-src.firstAt > time.Duration(consumed)*timeout {
				c.Violation("timeout", "call #%d kept waiting for %v of simulated time after its first byte (consumed %d bytes, so at most %d waits of %v each are allowed)", calls, endAt-src.firstAt, consumed, consumed, timeout)
				return
			}
			if err == io.EOF && consumed == 0 {
				break
			}
			if err != nil {
				cs.Events = append(cs.Events, "error:"+err.Error())
				if consumed == 0 {
					c.Violation("progress", "call #%d returned error %v without consuming input before the end of the stream", calls, err)
					return
				}
				continue
			}
			if ev == nil {
				c.Violation("total", "call #%d returned neither an event nor an error", calls)
				return
			}
			events = append(events, ev)
			cs.Events = append(cs.Events, fmt.Sprintf("%v", ev))
		}
		if plain {
			if len(events) != len(wantRunes) {
				c.Violation("plain-text", "%d characters were decoded into %d events: %v", len(wantRunes), len(events), cs.Events)
				return
			}
			for i, ev := range events {
				k, ok := ev.(term.KeyEvent)
				if !ok || ui.Key(k) != (ui.Key{Rune: wantRunes[i]}) {
					c.Violation("plain-text", "character #%d %q (U+%04X) was decoded as %v", i, wantRunes[i], wantRunes[i], ev)
					return
				}
			}
		}
		c.Res.Steps = src.next
		c.Res.Choices = src.timeout + src.timedOK
		c.Res.SimNS = int64(src.now())
		if src.timeout > 0 {
			c.Fault("sequence-cut-by-timeout")
		}
		if src.waited > 0 {
			c.Fault("stall-before-first-byte")
		}
	})
	c.Res.Strategy = "ttysim"
	h := uint64(14695981039346656037)
	for i, b := range data {
		h = (h ^ uint64(b)) * 1099511628211
		h = (h ^ uint64(gaps[i])) * 1099511628211
	}
	c.Res.Sig = fmt.Sprintf("%x", h)
	c.Res.Hash = c.Res.Sig
	c.Res.Trivial = len(data) == 0
}
