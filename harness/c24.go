package h

import (
	"errors"
	"fmt"
	"math"
	"os"
	"path/filepath"
	"sort"
	"strings"

	"src.elv.sh/pkg/store"
	"src.elv.sh/pkg/store/storedefs"
)

// ---- C24: the history store behaves like a sequential log ------------------
// (fault-free configuration of the store simulation; C25 adds crashes)

func init() { props["C24"] = runC24 }

type storeOp struct {
	Kind   string   `json:"k"`
	Text   string   `json:"text,omitempty"`
	Seq    int      `json:"seq,omitempty"`
	From   int      `json:"from,omitempty"`
	Upto   int      `json:"upto,omitempty"`
	Prefix string   `json:"prefix,omitempty"`
	Dir    string   `json:"dir,omitempty"`
	Factor float64  `json:"factor,omitempty"`
	Black  []string `json:"black,omitempty"`
}

func (o storeOp) mutates() bool {
	switch o.Kind {
	case "add", "del", "adddir", "deldir":
		return true
	}
	return false
}

type storeResult struct {
	Seq  int
	Text string
	Cmds []storedefs.Cmd
	Dirs []storedefs.Dir
	Err  string // "" | "nomatch" | other text
}

type storeModel struct {
	next   int
	cmds   map[int]string
	dirs   map[string]float64
	visits int
}

func newStoreModel() *storeModel {
	return &storeModel{next: 1, cmds: map[int]string{}, dirs: map[string]float64{}}
}

func (m *storeModel) clone() *storeModel {
	n := &storeModel{next: m.next, cmds: map[int]string{}, dirs: map[string]float64{}, visits: m.visits}
	for k, v := range m.cmds {
		n.cmds[k] = v
	}
	for k, v := range m.dirs {
		n.dirs[k] = v
	}
	return n
}

func (m *storeModel) seqs() []int {
	ks := make([]int, 0, len(m.cmds))
	for k := range m.cmds {
		ks = append(ks, k)
	}
	sort.Ints(ks)
	return ks
}

// The directory-score constants of the statement ("each visit multiplies every
// stored score by the decay factor and adds the increment, scaled by the
// visit's factor"), taken from the documented parameters of the store.
const (
	modelDecay     = store.DirScoreDecay
	modelIncrement = store.DirScoreIncrement
)

func (m *storeModel) apply(o storeOp) storeResult {
	var r storeResult
	switch o.Kind {
	case "add":
		r.Seq = m.next
		m.cmds[m.next] = o.Text
		m.next++
	case "del":
		delete(m.cmds, o.Seq)
	case "cmd":
		t, ok := m.cmds[o.Seq]
		if !ok {
			r.Err = "nomatch"
		}
		r.Text = t
	case "nextseq":
		r.Seq = m.next
	case "list":
		for _, k := range m.seqs() {
			if k >= o.From && (o.Upto < 0 || k < o.Upto) {
				r.Cmds = append(r.Cmds, storedefs.Cmd{Text: m.cmds[k], Seq: k})
			}
		}
	case "next":
		r.Err = "nomatch"
		for _, k := range m.seqs() {
			if k >= o.From && strings.HasPrefix(m.cmds[k], o.Prefix) {
				r.Seq, r.Text, r.Err = k, m.cmds[k], ""
				break
			}
		}
	case "prev":
		r.Err = "nomatch"
		ks := m.seqs()
		for i := len(ks) - 1; i >= 0; i-- {
			k := ks[i]
			if k < o.Upto && strings.HasPrefix(m.cmds[k], o.Prefix) {
				r.Seq, r.Text, r.Err = k, m.cmds[k], ""
				break
			}
		}
	case "adddir":
		for d := range m.dirs {
			m.dirs[d] *= modelDecay
		}
		m.dirs[o.Dir] += modelIncrement * o.Factor
		m.visits++
	case "deldir":
		delete(m.dirs, o.Dir)
	case "dirs":
		bl := map[string]bool{}
		for _, b := range o.Black {
			bl[b] = true
		}
		for d, s := range m.dirs {
			if !bl[d] {
				r.Dirs = append(r.Dirs, storedefs.Dir{Path: d, Score: s})
			}
		}
		sort.Slice(r.Dirs, func(i, j int) bool {
			if r.Dirs[i].Score != r.Dirs[j].Score {
				return r.Dirs[i].Score > r.Dirs[j].Score
			}
			return r.Dirs[i].Path < r.Dirs[j].Path
		})
	}
	return r
}

func errString(err error) string {
	switch {
	case err == nil:
		return ""
	case errors.Is(err, storedefs.ErrNoMatchingCmd), err.Error() == storedefs.ErrNoMatchingCmd.Error():
		// (across the daemon's RPC boundary only the message survives)
		return "nomatch"
	default:
		return err.Error()
	}
}

func applyReal(st storedefs.Store, o storeOp) storeResult {
	var r storeResult
	var err error
	switch o.Kind {
	case "add":
		r.Seq, err = st.AddCmd(o.Text)
	case "del":
		err = st.DelCmd(o.Seq)
	case "cmd":
		r.Text, err = st.Cmd(o.Seq)
	case "nextseq":
		r.Seq, err = st.NextCmdSeq()
	case "list":
		r.Cmds, err = st.CmdsWithSeq(o.From, o.Upto)
	case "next":
		var c storedefs.Cmd
		c, err = st.NextCmd(o.From, o.Prefix)
		r.Seq, r.Text = c.Seq, c.Text
	case "prev":
		var c storedefs.Cmd
		c, err = st.PrevCmd(o.Upto, o.Prefix)
		r.Seq, r.Text = c.Seq, c.Text
	case "adddir":
		err = st.AddDir(o.Dir, o.Factor)
	case "deldir":
		err = st.DelDir(o.Dir)
	case "dirs":
		bl := map[string]struct{}{}
		for _, b := range o.Black {
			bl[b] = struct{}{}
		}
		r.Dirs, err = st.Dirs(bl)
	}
	r.Err = errString(err)
	return r
}

// scoreTol is the relative tolerance for directory scores: the store keeps 7
// significant digits and re-rounds every score at every visit, the model keeps
// float64.
func scoreTol(visits int) float64 { return float64(visits+2) * 1e-6 }

func compareDirs(got, want []storedefs.Dir, visits int) error {
	if len(got) != len(want) {
		return fmt.Errorf("listed %d directories %v, model has %d %v", len(got), got, len(want), want)
	}
	tol := scoreTol(visits)
	ws := map[string]float64{}
	for _, d := range want {
		ws[d.Path] = d.Score
	}
	for i, d := range got {
		w, ok := ws[d.Path]
		if !ok {
			return fmt.Errorf("listed directory %q is not in the model %v", d.Path, want)
		}
		if math.Abs(d.Score-w) > tol*math.Max(math.Abs(w), 1e-300) {
			return fmt.Errorf("directory %q has score %v, model %v (tolerance %.1e relative)", d.Path, d.Score, w, tol)
		}
		delete(ws, d.Path)
		if i > 0 {
			// descending order, checked on model scores that are clearly apart
			prev := got[i-1]
			var pw float64
			for _, x := range want {
				if x.Path == prev.Path {
					pw = x.Score
				}
			}
			if w > pw && (w-pw) > 4*tol*math.Max(math.Abs(w), math.Abs(pw)) {
				return fmt.Errorf("listing not sorted by descending score: %q (model %v) before %q (model %v)", prev.Path, pw, d.Path, w)
			}
		}
	}
	return nil
}

func compareResult(o storeOp, got, want storeResult, visits int) error {
	if got.Err != want.Err {
		return fmt.Errorf("error %q, model %q", got.Err, want.Err)
	}
	if want.Err != "" {
		return nil
	}
	switch o.Kind {
	case "add", "nextseq":
		if got.Seq != want.Seq {
			return fmt.Errorf("sequence number %d, model %d", got.Seq, want.Seq)
		}
	case "cmd":
		if got.Text != want.Text {
			return fmt.Errorf("text %q, model %q", got.Text, want.Text)
		}
	case "next", "prev":
		if got.Seq != want.Seq || got.Text != want.Text {
			return fmt.Errorf("found (%d,%q), model (%d,%q)", got.Seq, got.Text, want.Seq, want.Text)
		}
	case "list":
		if len(got.Cmds) != len(want.Cmds) {
			return fmt.Errorf("listed %d commands %v, model %d %v", len(got.Cmds), got.Cmds, len(want.Cmds), want.Cmds)
		}
		for i := range got.Cmds {
			if got.Cmds[i] != want.Cmds[i] {
				return fmt.Errorf("entry %d is %v, model %v", i, got.Cmds[i], want.Cmds[i])
			}
		}
	case "dirs":
		return compareDirs(got.Dirs, want.Dirs, visits)
	}
	return nil
}

// compareState reads the whole state through the API and compares it with m.
func compareState(st storedefs.Store, m *storeModel) error {
	for _, o := range []storeOp{{Kind: "list", From: 0, Upto: -1}, {Kind: "nextseq"}, {Kind: "dirs"}} {
		if err := compareResult(o, applyReal(st, o), m.clone().apply(o), m.visits); err != nil {
			return fmt.Errorf("%s: %v", o.Kind, err)
		}
	}
	return nil
}

var storePrefixes = []string{"", "a", "ab", "abc", "b", "ls", "ls -l", "echo ", "\x00", "é"}

func genStoreOps(c *Ctx, maxOps int, mutateBias int) []storeOp {
	w := c.T.Workload
	n := w.Range(1, maxOps)
	// (no empty directory name: a visited directory always has a path, and
	// the storage engine rejects empty keys)
	dirs := []string{"/", "/home", "/home/u", "/tmp", "/usr/local/bin", "relative", "/home/ü"}
	if w.Chance(1, 4) {
		// many directories: listings longer than any small-input fast path
		for i := 0; i < 40; i++ {
			dirs = append(dirs, fmt.Sprintf("/d/%02d", (i*17)%40))
		}
	}
	next := 1
	var ops []storeOp
	text := func() string {
		switch w.Draw(12) {
		case 0:
			return ""
		case 1:
			return "\x00\xff\xfe bin\n"
		case 2:
			// longer than a database page: stored in overflow pages, written
			// with one multi-page pwrite
			return "long" + strings.Repeat(string(rune('a'+w.Draw(26))), 3000+w.Draw(9000))
		default:
			p := storePrefixes[w.Draw(len(storePrefixes))]
			suf := []string{"", "x", " foo", "c", "bc", " -l /"}[w.Draw(6)]
			return p + suf
		}
	}
	seq := func() int {
		switch w.Draw(6) {
		case 0:
			return 0
		case 1:
			return next + w.Draw(3)
		case 2:
			return next + 1000
		default:
			return w.Range(1, next)
		}
	}
	for i := 0; i < n; i++ {
		k := w.Draw(16 + mutateBias)
		var o storeOp
		switch {
		case k < 4 || k >= 16:
			o = storeOp{Kind: "add", Text: text()}
			next++
		case k == 4:
			o = storeOp{Kind: "del", Seq: seq()}
		case k == 5:
			o = storeOp{Kind: "cmd", Seq: seq()}
		case k == 6:
			o = storeOp{Kind: "nextseq"}
		case k == 7:
			o = storeOp{Kind: "list", From: seq(), Upto: seq()}
			if w.Chance(1, 3) {
				o.Upto = -1
			}
		case k == 8 || k == 9:
			o = storeOp{Kind: "next", From: seq(), Prefix: storePrefixes[w.Draw(len(storePrefixes))]}
		case k == 10 || k == 11:
			o = storeOp{Kind: "prev", Upto: seq(), Prefix: storePrefixes[w.Draw(len(storePrefixes))]}
		case k == 12 || k == 13:
			o = storeOp{Kind: "adddir", Dir: dirs[w.Draw(len(dirs))], Factor: []float64{1, 1, 0.5, 2, 10}[w.Draw(5)]}
		case k == 14:
			o = storeOp{Kind: "deldir", Dir: dirs[w.Draw(len(dirs))]}
		default:
			o = storeOp{Kind: "dirs"}
			for j := w.Draw(3); j > 0; j-- {
				o.Black = append(o.Black, dirs[w.Draw(len(dirs))])
			}
		}
		ops = append(ops, o)
	}
	return ops
}

func storeTempDir() string {
	base := os.Getenv("VERIF_SHM")
	if base == "" {
		if fi, err := os.Stat("/dev/shm"); err == nil && fi.IsDir() {
			base = "/dev/shm"
		}
	}
	d, err := os.MkdirTemp(base, "verif-store-")
	if err != nil {
		d, err = os.MkdirTemp("", "verif-store-")
		if err != nil {
			panic(err)
		}
	}
	return d
}

func runC24(c *Ctx) {
	maxOps := 60
	if c.Thorough() {
		maxOps = 300
	}
	ops := genStoreOps(c, maxOps, 0)
	c.Res.Case = map[string]any{"ops": ops}
	c.Res.Sig = ""
	dir := storeTempDir()
	defer os.RemoveAll(dir)
	st, err := store.NewStore(filepath.Join(dir, "db"))
	if err != nil {
		c.Violation("open", "creating a fresh database failed: %v", err)
		return
	}
	m := newStoreModel()
	for i, o := range ops {
		got := applyReal(st, o)
		want := m.apply(o)
		if err := compareResult(o, got, want, m.visits); err != nil {
			c.Violation("model", "operation #%d %+v: %v", i, o, err)
			st.Close()
			return
		}
	}
	if err := compareState(st, m); err != nil {
		c.Violation("model", "final state: %v", err)
	}
	st.Close()
	// Reopen: the persisted state is the same.
	st2, err := store.NewStore(filepath.Join(dir, "db"))
	if err != nil {
		c.Violation("open", "reopening failed: %v", err)
		return
	}
	if err := compareState(st2, m); err != nil {
		c.Violation("model", "state after close and reopen: %v", err)
	}
	st2.Close()
	c.Res.Steps = len(ops)
	c.Res.Choices = len(ops)
	c.Res.Strategy = "sequential"
	c.Res.Sig = fmt.Sprintf("%x", hashOps(ops))
	c.Res.Hash = c.Res.Sig
}

func hashOps(ops []storeOp) uint64 {
	h := uint64(14695981039346656037)
	for _, o := range ops {
		for _, b := range []byte(fmt.Sprintf("%+v|", o)) {
			h = (h ^ uint64(b)) * 1099511628211
		}
	}
	return h
}
