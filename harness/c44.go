package h

import (
	"bytes"
	"context"
	"encoding/json"
	"fmt"
	"io"
	"sort"
	"strconv"
	"strings"
	"time"
	"unicode/utf8"

	"src.elv.sh/pkg/lsp"
	"src.elv.sh/pkg/parse"
	"src.elv.sh/zzverif/simrt"
)

// ---- C44: the language server answers every request and maps positions exactly ----

func init() { props["C44"] = runC44 }

// Read is the server's input (called by jsonrpc2's reader goroutine).
func (w *lspWire) Read(p []byte) (int, error) {
	for {
		n, closed := w.takeIn(p)
		if n > 0 {
			return n, nil
		}
		if closed {
			return 0, io.EOF
		}
		<-w.inSig
	}
}

func (w *lspWire) Close() error {
	w.closeIn()
	return nil
}

type c44msg struct {
	Method string `json:"method"`
	ID     int    `json:"id,omitempty"` // 0: notification
	URI    string `json:"uri,omitempty"`
	Text   string `json:"text,omitempty"`
	Line   int    `json:"line,omitempty"`
	Char   int    `json:"char,omitempty"`
	Chunks []int  `json:"chunks,omitempty"`
	Wait   bool   `json:"wait,omitempty"`
}

type c44case struct {
	Msgs       []c44msg `json:"msgs"`
	Disconnect int      `json:"disconnect_after_bytes,omitempty"`
}

// ---- reference position model: UTF-16 code units, CRLF = one line break ------

type refPos struct{ Line, Char int }

// refPositions returns, for every byte offset that is a character boundary
// (rune boundary, and not between the CR and LF of a CRLF pair), its position.
func refPositions(s string) map[int]refPos {
	m := map[int]refPos{}
	line, char := 0, 0
	for i := 0; i < len(s); {
		m[i] = refPos{line, char}
		r, size := utf8.DecodeRuneInString(s[i:])
		switch {
		case r == '\r' && i+1 < len(s) && s[i+1] == '\n':
			line, char = line+1, 0
			i += 2
			continue
		case r == '\r' || r == '\n':
			line, char = line+1, 0
		case r >= 0x10000:
			char += 2
		default:
			char++
		}
		i += size
	}
	m[len(s)] = refPos{line, char}
	return m
}

var c44docs = []string{
	"echo hello\n", "put $x\r\nput $y\r\n", "e:ls | each {|x| put $x }\r", "fn f {\n  put 中文 😀\n}\nf\n",
	"put [\n", "echo 'unterminated\n", "put 😀😀 $", "}\r\n{", "", "\r\n\r\n", "\n\r", "var a = (+ 1 2)\necho $a\n",
	"echo \"\\😀\"\n", "put a\r\nput \"\\x𐀀\" \"\\中\"\r\n", "\U0010FFFF x\n😀 \"\\c😀", "put \"\\é\\😀\" ]😀",
	"echo é | put \xff\n", "if $true { put a } else { put b }\r\necho\tdone", "put $pid\nput $nonexistent:x\n",
}

func genC44Text(w *simrt.Tape) string {
	t := c44docs[w.Draw(len(c44docs))]
	for n := w.Draw(3); n > 0; n-- {
		frag := []string{"\r\n", "\n", "\r", "😀", "é", "$", "{", "'", " put x", "中", "|", "]", "\"\\", "\"", "\U0010FFFF", "\\x"}[w.Draw(16)]
		k := 0
		if len(t) > 0 {
			k = w.Draw(len(t) + 1)
			for k < len(t) && !utf8.RuneStart(t[k]) {
				k++
			}
		}
		t = t[:k] + frag + t[k:]
	}
	// What the server receives is the text after JSON transport (invalid UTF-8
	// becomes U+FFFD): record that.
	if b, err := json.Marshal(t); err == nil {
		json.Unmarshal(b, &t)
	}
	return t
}

func runC44(c *Ctx) {
	w := c.T.Workload
	cs := &c44case{}
	c.Res.Case = cs
	uris := []string{"file:///a.elv", "file:///b.elv"}
	texts := map[string][]string{}
	id := 1
	cs.Msgs = append(cs.Msgs, c44msg{Method: "initialize", ID: id, Wait: true})
	id++
	n := w.Range(2, 14)
	if c.Thorough() {
		n = w.Range(2, 40)
	}
	for i := 0; i < n; i++ {
		uri := uris[w.Draw(2)]
		var m c44msg
		k := w.Draw(10)
		switch {
		case len(texts[uri]) == 0 && k < 8:
			m = c44msg{Method: "textDocument/didOpen", URI: uri, Text: genC44Text(w)}
			texts[uri] = append(texts[uri], m.Text)
		case k < 3:
			m = c44msg{Method: "textDocument/didChange", URI: uri, Text: genC44Text(w)}
			if len(texts[uri]) == 0 {
				continue // a change is only sent for an open document
			}
			texts[uri] = append(texts[uri], m.Text)
		case k < 6:
			m = c44msg{Method: "textDocument/hover", ID: id, URI: uri}
			id++
		case k < 9:
			m = c44msg{Method: "textDocument/completion", ID: id, URI: uri}
			id++
		default:
			m = c44msg{Method: "textDocument/hover", ID: id, URI: "file:///unknown.elv"}
			id++
		}
		if m.ID != 0 && m.Method != "initialize" {
			// position: inside, at and beyond line ends, inside CRLF, between surrogate halves, beyond the last line
			cur := ""
			if ts := texts[m.URI]; len(ts) > 0 {
				cur = ts[len(ts)-1]
			}
			lines := strings.Count(cur, "\n") + strings.Count(cur, "\r") + 1
			m.Line = w.Draw(lines + 2)
			m.Char = w.Draw(24)
		}
		m.Wait = w.Chance(1, 3)
		cs.Msgs = append(cs.Msgs, m)
	}
	// framing and chunking
	frames := make([][]byte, len(cs.Msgs))
	total := 0
	for i := range cs.Msgs {
		m := &cs.Msgs[i]
		frames[i] = c44frame(m)
		rest := len(frames[i])
		for rest > 0 {
			k := rest
			switch w.Draw(4) {
			case 0:
				k = 1 + w.Draw(7)
			case 1:
				k = 1 + w.Draw(rest)
			}
			if k > rest {
				k = rest
			}
			m.Chunks = append(m.Chunks, k)
			rest -= k
		}
		total += len(frames[i])
	}
	if c.T.Faults.Chance(1, 6) {
		cs.Disconnect = 1 + c.T.Faults.Draw(total)
	}

	responses := map[int]int{}
	var respErr []string
	published := map[string][][]refRange{}
	completionBad := ""
	disconnected := false
	var races []string
	c.Bubble(func() {
		s := simrt.New(c.T)
		s.KeepTrace = c.Knobs["trace"] != ""
		// The server's document table must only be touched by the (serial)
		// request handler; the happens-before monitor watches it.
		s.EnableHB()
		wire := newLSPWire()
		ctx, cancel := context.WithCancel(context.Background())
		defer cancel()
		s.Spawn("client", func() {
			conn := lsp.VerifServe(ctx, wire)
			// jsonrpc2 starts its reader goroutine inside un-instrumented code:
			// until that goroutine reaches its first instrumented operation (the
			// wait for input in lspWire.Read) it runs beside this one. Park here,
			// so that the scheduler's barrier lets it get there first; otherwise
			// whether its first Read finds the first chunk is a real race.
			simrt.Yield("c44:server-started")
			var pending []byte
			// pump parses whatever the server has written so far.
			pump := func() {
				pending = append(pending, wire.takeOut()...)
				for {
					body, rest, ok := c44unframe(pending)
					if !ok {
						return
					}
					pending = rest
					var msg struct {
						ID     *int            `json:"id"`
						Method string          `json:"method"`
						Params json.RawMessage `json:"params"`
						Result json.RawMessage `json:"result"`
						Error  json.RawMessage `json:"error"`
					}
					if err := json.Unmarshal(body, &msg); err != nil {
						respErr = append(respErr, "unparsable message from the server: "+string(body))
						continue
					}
					switch {
					case msg.Method == "textDocument/publishDiagnostics":
						var p struct {
							URI         string `json:"uri"`
							Diagnostics []struct {
								Range struct {
									Start, End struct{ Line, Character int }
								} `json:"range"`
							} `json:"diagnostics"`
						}
						json.Unmarshal(msg.Params, &p)
						var rs []refRange
						for _, d := range p.Diagnostics {
							rs = append(rs, refRange{refPos{d.Range.Start.Line, d.Range.Start.Character}, refPos{d.Range.End.Line, d.Range.End.Character}})
						}
						published[p.URI] = append(published[p.URI], rs)
					case msg.ID != nil:
						responses[*msg.ID]++
						if len(msg.Result) > 0 && msg.Result[0] == '[' {
							// completion items: ranges must be well-formed
							var items []struct {
								TextEdit struct {
									Range struct {
										Start, End struct{ Line, Character int }
									} `json:"range"`
								} `json:"textEdit"`
							}
							if json.Unmarshal(msg.Result, &items) == nil {
								for _, it := range items {
									st, en := it.TextEdit.Range.Start, it.TextEdit.Range.End
									if st.Line > en.Line || (st.Line == en.Line && st.Character > en.Character) || st.Line < 0 || st.Character < 0 {
										completionBad = fmt.Sprintf("completion edit range %v-%v is not a range", st, en)
									}
								}
							}
						}
					}
				}
			}
			waitFor := func(id int) {
				for responses[id] == 0 && !disconnected {
					pump()
					if responses[id] > 0 {
						return
					}
					select {
					case <-wire.outSig:
					case <-conn.DisconnectNotify():
						disconnected = true
					}
				}
			}
			sent := 0
			for i := range cs.Msgs {
				m := cs.Msgs[i]
				off := 0
				for _, k := range m.Chunks {
					if cs.Disconnect > 0 && sent+k >= cs.Disconnect {
						wire.pushIn(frames[i][off : off+(cs.Disconnect-sent)])
						wire.closeIn()
						c.Fault("disconnect-mid-stream")
						disconnected = true
						break
					}
					wire.pushIn(frames[i][off : off+k])
					off += k
					sent += k
					simrt.Yield("c44:chunk")
					if w.Chance(1, 6) {
						time.Sleep(time.Duration(1+w.Draw(2000)) * time.Microsecond)
					}
				}
				if disconnected {
					break
				}
				if m.Wait && m.ID != 0 {
					waitFor(m.ID)
				}
			}
			if !disconnected {
				// wait for every response, then let the diagnostics goroutines finish
				for _, m := range cs.Msgs {
					if m.ID != 0 {
						waitFor(m.ID)
					}
				}
				time.Sleep(50 * time.Millisecond)
				pump()
				wire.closeIn()
			}
			<-conn.DisconnectNotify()
			pump()
		})
		v := s.Run()
		if s.HB != nil && len(s.HB.Races) > 0 {
			races = append(races, s.HB.Races...)
		}
		c.FinishSim(s, v)
	})
	if !c.Res.OK {
		return
	}
	if len(races) > 0 {
		sort.Strings(races)
		c.Violation("data-race", "%d unsynchronised conflicting accesses to the server's document table (a concurrent map read and write kills the process); first: %s", len(races), races[0])
	}
	for _, e := range respErr {
		c.Violation("protocol", "%s", e)
	}
	if completionBad != "" {
		c.Violation("positions", "%s", completionBad)
	}
	// Position conversion against the reference walk, on every text of this run
	// (offset -> position agrees; offset -> position -> offset round-trips).
	for _, ts := range texts {
		for _, t := range ts {
			ref := refPositions(t)
			var offs []int
			for o := range ref {
				offs = append(offs, o)
			}
			sort.Ints(offs)
			for _, o := range offs {
				l, ch := lsp.VerifPositionFromIdx(t, o)
				if (refPos{l, ch}) != ref[o] {
					c.Violation("positions", "offset %d of %q converts to position %d:%d, the reference walk (UTF-16 units, CRLF one break) gives %d:%d", o, t, l, ch, ref[o].Line, ref[o].Char)
				}
				if back := lsp.VerifPositionToIdx(t, l, ch); back != o {
					c.Violation("round-trip", "offset %d of %q -> position %d:%d -> offset %d: does not round-trip at a character boundary", o, t, l, ch, back)
				}
			}
		}
	}
	if disconnected {
		c.Probe("disconnected-early")
		return
	}
	// Every request answered exactly once.
	for _, m := range cs.Msgs {
		if m.ID != 0 && responses[m.ID] != 1 {
			c.Violation("responses", "request %d (%s) received %d responses", m.ID, m.Method, responses[m.ID])
		}
	}
	// Diagnostics: every publication equals the parse errors of some text sent
	// for that document; one publication per open/change.
	for uri, ts := range texts {
		var allowed [][]refRangeAlt
		for _, t := range ts {
			allowed = append(allowed, refDiagnostics(uri, t, func(what string) { c.Probe(what) }))
		}
		pubs := published[uri]
		if len(pubs) != len(ts) {
			c.Violation("diagnostics", "document %s: %d texts were sent (open/change) but %d diagnostics sets were published", uri, len(ts), len(pubs))
		}
		for _, p := range pubs {
			match := false
			for _, a := range allowed {
				if matchRanges(a, p) {
					match = true
				}
			}
			if !match {
				c.Violation("diagnostics", "document %s: published diagnostics ranges %v are not the parse-error ranges of any text sent for it (allowed, per text and error, start and end positions: %v)", uri, p, allowed)
			}
		}
	}
}

type refRange struct{ Start, End refPos }

// refRangeAlt is what the reference allows for one parse error: the start and
// end positions it may be published with. Offsets at character boundaries
// have exactly one position. The parser also reports one-BYTE ranges at
// multi-byte characters, whose end lies inside the character: such an offset
// may be published as either boundary of the character it lies in, never as a
// position inside it (between the halves of a surrogate pair). An offset
// between the CR and LF of a CRLF pair has no reference position (empty set:
// not compared).
type refRangeAlt struct{ Starts, Ends []refPos }

func matchRanges(a []refRangeAlt, b []refRange) bool {
	if len(a) != len(b) {
		return false
	}
	in := func(set []refPos, p refPos) bool {
		if len(set) == 0 {
			return true
		}
		for _, q := range set {
			if q == p {
				return true
			}
		}
		return false
	}
	for i := range a {
		if !in(a[i].Starts, b[i].Start) || !in(a[i].Ends, b[i].End) {
			return false
		}
	}
	return true
}

func refDiagnostics(uri, text string, probe func(string)) []refRangeAlt {
	_, err := parse.Parse(parse.Source{Name: uri, Code: text}, parse.Config{})
	ref := refPositions(text)
	alts := func(o int) []refPos {
		if p, ok := ref[o]; ok {
			return []refPos{p}
		}
		if o > 0 && o < len(text) && text[o-1] == '\r' && text[o] == '\n' {
			probe("parse-error-boundary-inside-crlf")
			return nil
		}
		// inside a multi-byte character: its two boundaries
		lo, hi := o, o
		for lo > 0 && !utf8.RuneStart(text[lo]) {
			lo--
		}
		for hi < len(text) && !utf8.RuneStart(text[hi]) {
			hi++
		}
		a, ok1 := ref[lo]
		b, ok2 := ref[hi]
		if !ok1 || !ok2 {
			return nil
		}
		probe("parse-error-boundary-inside-character")
		return []refPos{a, b}
	}
	rs := []refRangeAlt{}
	for _, e := range parse.UnpackErrors(err) {
		r := e.Range()
		rs = append(rs, refRangeAlt{alts(r.From), alts(r.To)})
	}
	return rs
}

func c44frame(m *c44msg) []byte {
	params := map[string]any{}
	switch m.Method {
	case "initialize":
		params = map[string]any{"processId": 1, "capabilities": map[string]any{}}
	case "textDocument/didOpen":
		params = map[string]any{"textDocument": map[string]any{"uri": m.URI, "languageId": "elvish", "version": 1, "text": m.Text}}
	case "textDocument/didChange":
		params = map[string]any{"textDocument": map[string]any{"uri": m.URI, "version": 2}, "contentChanges": []any{map[string]any{"text": m.Text}}}
	default:
		params = map[string]any{"textDocument": map[string]any{"uri": m.URI}, "position": map[string]any{"line": m.Line, "character": m.Char}}
	}
	msg := map[string]any{"jsonrpc": "2.0", "method": m.Method, "params": params}
	if m.ID != 0 {
		msg["id"] = m.ID
	}
	body, _ := json.Marshal(msg)
	return append([]byte("Content-Length: "+strconv.Itoa(len(body))+"\r\n\r\n"), body...)
}

func c44unframe(b []byte) (body, rest []byte, ok bool) {
	i := bytes.Index(b, []byte("\r\n\r\n"))
	if i < 0 {
		return nil, b, false
	}
	n := -1
	for _, h := range strings.Split(string(b[:i]), "\r\n") {
		if strings.HasPrefix(strings.ToLower(h), "content-length:") {
			n, _ = strconv.Atoi(strings.TrimSpace(h[len("content-length:"):]))
		}
	}
	if n < 0 || len(b) < i+4+n {
		return nil, b, false
	}
	return b[i+4 : i+4+n], b[i+4+n:], true
}
