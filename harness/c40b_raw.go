package h

import "context"

// cancelVia returns a cancel function that cancels whatever *p holds when it
// is called. It is invoked on the scheduler goroutine and therefore lives in
// an un-instrumented file.
func cancelVia(p *context.CancelFunc) context.CancelFunc {
	return func() {
		if f := *p; f != nil {
			f()
		}
	}
}
