package h

import (
	"encoding/json"
	"fmt"
	"os"
	"runtime/debug"
	"testing"
	"time"

	"src.elv.sh/zzverif/simrt"
)

func runOne(prop string, tapes *simrt.Tapes, tier string, keepTrace bool) *Result {
	res := &Result{Prop: prop, Seed: tapes.Seed, OK: true}
	c := &Ctx{T: tapes, Tier: tier, Res: res, Knobs: map[string]string{}}
	if keepTrace {
		c.Knobs["trace"] = "1"
	}
	f := props[prop]
	if f == nil {
		fmt.Fprintf(os.Stderr, "unknown property %q\n", prop)
		os.Exit(2)
	}
	func() {
		defer func() {
			if r := recover(); r != nil {
				// A panic on the harness goroutine itself (outside simulated
				// tasks) is a harness bug or a crash of sequential code under
				// test; engines that run code directly convert it themselves.
				c.Violation("panic", "panic: %v\n%s", r, debug.Stack())
				c.Res.Class = "panic"
			}
		}()
		f(c)
	}()
	c.emitAndExitIfFailed()
	return res
}

func TestWorker(t *testing.T) {
	prop := os.Getenv("VERIF_PROP")
	if prop == "" {
		t.Skip("VERIF_PROP not set")
	}
	workerT = t
	debug.SetGCPercent(400)
	tier := os.Getenv("VERIF_TIER")
	if tier == "" {
		tier = "quick"
	}
	out := os.Getenv("VERIF_OUT")
	var err error
	if out == "" {
		workerOut = os.Stdout
	} else if workerOut, err = os.OpenFile(out, os.O_CREATE|os.O_WRONLY|os.O_APPEND, 0o644); err != nil {
		fmt.Fprintln(os.Stderr, err)
		os.Exit(2)
	}
	if v := envInt("VERIF_BUDGET_SCALE", 1); v > 1 {
		simrt.BudgetScale = int(v)
	}
	simrt.StartWatchdog(time.Duration(envInt("VERIF_WATCHDOG_S", 60)) * time.Second)

	if rp := os.Getenv("VERIF_REPLAY"); rp != "" {
		b, err := os.ReadFile(rp)
		if err != nil {
			fmt.Fprintln(os.Stderr, err)
			os.Exit(2)
		}
		var rf ReplayFile
		if err := json.Unmarshal(b, &rf); err != nil {
			fmt.Fprintln(os.Stderr, "bad replay file:", err)
			os.Exit(2)
		}
		if rf.Tier != "" {
			tier = rf.Tier
		}
		tapes := simrt.ReplayTapes(rf.Seed, rf.Tapes.Workload, rf.Tapes.Sched, rf.Tapes.Faults)
		res := runOne(rf.Prop, tapes, tier, os.Getenv("VERIF_TRACE") != "")
		writeJSONLine(workerOut, res)
		return
	}

	seed0 := uint64(envInt("VERIF_SEED0", 1))
	n := envInt("VERIF_NSEEDS", 1)
	deadline := envInt("VERIF_DEADLINE", 0)
	for i := int64(0); i < n; i++ {
		if deadline > 0 && realNow() > deadline {
			break
		}
		seed := seed0 + uint64(i)
		res := runOne(prop, simrt.NewTapes(seed), tier, os.Getenv("VERIF_TRACE") != "")
		writeJSONLine(workerOut, res)
	}
}
