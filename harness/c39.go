package h

import (
	"fmt"
	"os"
	"path/filepath"
	"sort"
	"strings"
	"time"

	"github.com/anishathalye/porcupine"
	"src.elv.sh/pkg/eval"
	"src.elv.sh/pkg/eval/vars"
	"src.elv.sh/pkg/parse"
	"src.elv.sh/zzverif/simrt"
)

// ---- C39: one interpreter can safely be used from many goroutines ------------

func init() { props["C39"] = runC39 }

type c39op struct {
	Kind   string   `json:"k"` // eval | check | call
	Code   string   `json:"code"`
	Defs   []string `json:"defs,omitempty"`
	Refs   []string `json:"refs,omitempty"`
	Uses   []string `json:"uses,omitempty"`
	Call   int64    `json:"call"`
	Ret    int64    `json:"ret"`
	OK     bool     `json:"ok"`
	Err    string   `json:"err,omitempty"`
	Task   int      `json:"task"`
	outVal []string
}

type c39case struct {
	Tasks   [][]*c39op `json:"tasks"`
	Modules []string   `json:"modules"`
}

func runC39(c *Ctx) {
	w := c.T.Workload
	cs := &c39case{Modules: []string{"m1", "m2", "mbad"}}
	c.Res.Case = cs
	dir, err := os.MkdirTemp("", "c39-")
	if err != nil {
		panic(err)
	}
	defer os.RemoveAll(dir)
	// m1, m2: import-time side effect (a tick) and a definition; mbad fails while importing.
	os.WriteFile(filepath.Join(dir, "m1.elv"), []byte("vtick m1\nvar x = one\nfn f { put m1f }\n"), 0o644)
	os.WriteFile(filepath.Join(dir, "m2.elv"), []byte("vtick m2\nuse m1\nvar y = $m1:x\n"), 0o644)
	os.WriteFile(filepath.Join(dir, "mbad.elv"), []byte("vtick mbad\nfail bad-module\n"), 0o644)

	ntasks := w.Range(2, 8)
	total := 0
	// Names a task may refer to: its own earlier definitions (certainly
	// there) and other tasks' definitions (there or not, depending on order).
	var allNames []string
	for t := 0; t < ntasks; t++ {
		nops := w.Range(1, 4)
		if total+nops > 24 {
			nops = 1
		}
		total += nops
		var ops []*c39op
		for i := 0; i < nops; i++ {
			op := &c39op{Task: t}
			name := fmt.Sprintf("g%d_%d", t, i)
			var parts []string
			k := w.Draw(10)
			switch {
			case k < 6:
				op.Kind = "eval"
				// optional reference to somebody's definition
				if len(allNames) > 0 && w.Chance(1, 2) {
					ref := allNames[w.Draw(len(allNames))]
					op.Refs = append(op.Refs, ref)
					parts = append(parts, "put $"+ref)
				}
				if w.Chance(1, 2) {
					m := cs.Modules[w.Draw(len(cs.Modules))]
					op.Uses = append(op.Uses, m)
					parts = append(parts, "use "+m)
				}
				switch w.Draw(4) {
				case 0:
					parts = append(parts, "peach {|x| put $x } [a b c] | count")
				case 1:
					parts = append(parts, "run-parallel { put a } { put b }")
				case 2:
					parts = append(parts, "range 5 | each {|x| put $x } | count")
				}
				op.Defs = append(op.Defs, name)
				if w.Chance(1, 2) {
					parts = append(parts, fmt.Sprintf("var %s = v%s", name, name))
				} else {
					parts = append(parts, fmt.Sprintf("fn %s { put v%s }", name, name))
					op.Defs[0] = name + "~"
				}
				allNames = append(allNames, op.Defs[0])
			case k < 8:
				op.Kind = "check"
				if len(allNames) > 0 {
					ref := allNames[w.Draw(len(allNames))]
					parts = append(parts, "put $"+ref)
				}
				parts = append(parts, "use m1", "echo $m1:x")
			case k == 8:
				// a definition published through the Go API (what edit:add-var does)
				op.Kind = "extend"
				op.Defs = append(op.Defs, name)
				allNames = append(allNames, name)
			default:
				op.Kind = "call"
			}
			op.Code = strings.Join(parts, "; ")
			ops = append(ops, op)
		}
		cs.Tasks = append(cs.Tasks, ops)
	}

	ticks := map[string]int{}
	useOK := map[string]int{}
	var lost []string
	var races []string
	checked, cross := 0, 0
	c.Bubble(func() {
		s := simrt.New(c.T)
		s.KeepTrace = c.Knobs["trace"] != ""
		s.EnableHB()
		s.Spawn("main", func() {
			ev := eval.NewEvaler()
			ev.LibDirs = []string{dir}
			// (in the builtin namespace, so that module code can call it)
			ev.ExtendBuiltin(eval.BuildNs().AddGoFns(map[string]any{
				"vtick": func(name string) { ticks[name]++; simrt.Yield("c39:tick") },
			}))
			// A closure for the "call" operations, obtained before the concurrent phase.
			var closure eval.Callable
			{
				outPort, collect, _ := eval.CapturePort()
				ev.Eval(parse.Source{Name: "[setup]", Code: "put {|| peach {|x| put $x } [1 2 3] | count }"},
					eval.EvalCfg{Ports: []*eval.Port{eval.DummyInputPort, outPort, outPort}})
				vs, _ := collect()
				if len(vs) == 1 {
					closure, _ = vs[0].(eval.Callable)
				}
			}
			done := make(chan struct{}, len(cs.Tasks))
			for ti, ops := range cs.Tasks {
				ti, ops := ti, ops
				go func() {
					defer func() { done <- struct{}{} }()
					for _, op := range ops {
						outPort, collect, err := eval.CapturePort()
						if err != nil {
							panic(err)
						}
						ports := []*eval.Port{eval.DummyInputPort, outPort, outPort}
						op.Call = int64(simrt.CurStep())*2 + 1
						var e error
						switch op.Kind {
						case "eval":
							e = ev.Eval(parse.Source{Name: fmt.Sprintf("[t%d]", ti), Code: op.Code}, eval.EvalCfg{Ports: ports})
						case "extend":
							ev.ExtendGlobal(eval.BuildNs().AddVar(op.Defs[0], vars.NewReadOnly("v"+op.Defs[0])))
						case "check":
							_, _, e = ev.Check(parse.Source{Name: "[check]", Code: op.Code}, nil)
						case "call":
							if closure != nil {
								e = ev.Call(closure, eval.CallCfg{}, eval.EvalCfg{Ports: ports})
							}
						}
						op.Ret = int64(simrt.CurStep()) * 2
						vs, _ := collect()
						for _, v := range vs {
							op.outVal = append(op.outVal, fmt.Sprint(v))
						}
						op.OK = e == nil
						if e != nil {
							op.Err = e.Error()
						}
						if op.Kind == "eval" && e == nil {
							for _, m := range op.Uses {
								useOK[m]++
							}
						}
					}
				}()
			}
			for range cs.Tasks {
				<-done
			}
			// Definitions are never lost: whatever a completed operation
			// published must be in the global namespace at the end.
			g := ev.Global()
			for _, task := range cs.Tasks {
				for _, op := range task {
					published := op.Kind == "extend" || (op.Kind == "eval" && (op.OK || !strings.Contains(op.Err, "not found")))
					if !published {
						continue
					}
					for _, d := range op.Defs {
						if !g.HasKeyString(d) {
							lost = append(lost, fmt.Sprintf("%s (defined by task %d's %s %q)", d, op.Task, op.Kind, op.Code))
						}
					}
				}
			}
		})
		v := s.Run()
		if s.HB != nil {
			races = s.HB.Races
			checked, cross = s.HB.Checked, s.HB.CrossChecked
		}
		c.FinishSim(s, v)
	})
	if !c.Res.OK {
		return
	}
	if cross > 0 {
		c.Probe("designated-state-accessed-by-several-goroutines")
	}
	_ = checked
	// 2. happens-before monitor
	if len(races) > 0 {
		sort.Strings(races)
		c.Violation("data-race", "%d unsynchronised conflicting accesses to interpreter state; first: %s", len(races), races[0])
	}
	// 3c. a module whose body fails can never be imported successfully: in every
	// sequential order each import runs the body again and fails. A success
	// means the evaluation picked up the table entry of a concurrent import
	// that was still running (and failed later).
	for _, task := range cs.Tasks {
		for _, op := range task {
			if op.Kind != "eval" || !op.OK {
				continue
			}
			for _, m := range op.Uses {
				if m == "mbad" {
					c.Violation("module-loading-visible", "evaluation %q (task %d) imported module mbad successfully although its body always fails: it saw the module-table entry of a concurrent import that was still executing", op.Code, op.Task)
				}
			}
		}
	}
	if len(lost) > 0 {
		c.Violation("lost-definition", "%d global definitions published by completed operations are missing from the global namespace at the end (lost update): %s", len(lost), strings.Join(lost, "; "))
	}
	// 3a. evaluations behave as in some sequential order w.r.t. the global namespace
	var ops []porcupine.Operation
	for _, task := range cs.Tasks {
		for _, op := range task {
			if op.Kind != "eval" && op.Kind != "extend" {
				continue
			}
			ops = append(ops, porcupine.Operation{ClientId: op.Task, Input: op, Call: op.Call, Output: op, Return: op.Ret})
		}
	}
	model := porcupine.Model{
		Init: func() interface{} { return "" },
		Step: func(state, input, output interface{}) (bool, interface{}) {
			st := state.(string)
			op := input.(*c39op)
			have := map[string]bool{}
			for _, n := range strings.Split(st, ",") {
				have[n] = true
			}
			all := true
			for _, r := range op.Refs {
				if !have[r] {
					all = false
				}
			}
			usesBad := false
			for _, m := range op.Uses {
				if m == "mbad" {
					usesBad = true
				}
			}
			if !all {
				// compilation must fail, nothing is defined
				return !op.OK && strings.Contains(op.Err, "not found"), st
			}
			if usesBad {
				// the failing module throws before the definitions that follow
				// it run; the variables are nevertheless declared at compile time.
				// (An import of the failing module that SUCCEEDS is reported by
				// the dedicated check above, under its own clause; here it is
				// accepted so that the rest of the history is still checked.)
				return op.OK || strings.Contains(op.Err, "bad-module"), addNames(st, op.Defs)
			}
			return op.OK, addNames(st, op.Defs)
		},
	}
	switch porcupine.CheckOperationsTimeout(model, ops, 10*time.Second) {
	case porcupine.Illegal:
		var lines []string
		for _, o := range ops {
			op := o.Input.(*c39op)
			lines = append(lines, fmt.Sprintf("t%d [%d,%d] defs=%v refs=%v uses=%v ok=%v err=%q", op.Task, op.Call, op.Ret, op.Defs, op.Refs, op.Uses, op.OK, op.Err))
		}
		c.Violation("serializability", "the evaluations' outcomes (which global names resolved, which definitions were published) match no sequential order:\n%s", strings.Join(lines, "\n"))
	case porcupine.Unknown:
		c.Probe("serializability-check-inconclusive")
	}
	// 3b. a module's body runs once, however many evaluations import it
	// concurrently (in any sequential order the second `use` finds it loaded).
	for _, m := range []string{"m1", "m2"} {
		if useOK[m] > 0 && ticks[m] > 1 {
			c.Violation("module-once", "module %s was imported successfully by %d evaluations and its body ran %d times; in every sequential order it runs once", m, useOK[m], ticks[m])
		}
	}
}

func addNames(st string, defs []string) string {
	have := map[string]bool{}
	for _, n := range strings.Split(st, ",") {
		if n != "" {
			have[n] = true
		}
	}
	for _, d := range defs {
		have[d] = true
	}
	var ns []string
	for n := range have {
		ns = append(ns, n)
	}
	sort.Strings(ns)
	return strings.Join(ns, ",")
}
