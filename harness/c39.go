package h

import (
	"fmt"
	"os"
	"path/filepath"
	"sort"
	"strings"
	"time"

	"github.com/anishathalye/porcupine"
	"src.elv.sh/pkg/eval"
	"src.elv.sh/pkg/eval/vars"
	"src.elv.sh/pkg/parse"
	"src.elv.sh/zzverif/simrt"
)

// ---- C39: one interpreter can safely be used from many goroutines ------------

func init() { props["C39"] = runC39 }

type c39op struct {
	Kind string   `json:"k"` // eval | check | call
	Code string   `json:"code"`
	Defs []string `json:"defs,omitempty"`
	Refs []string `json:"refs,omitempty"`
	Uses []string `json:"uses,omitempty"`
	// pre-existing globals this evaluation reads first (put $name), re-declares
	// (var name = value) and deletes (del name)
	Reads    []string          `json:"reads,omitempty"`
	Sets     map[string]string `json:"sets,omitempty"`
	Dels     []string          `json:"dels,omitempty"`
	Dep      bool              `json:"dep,omitempty"`       // calls the deprecated function first
	DepShown int               `json:"dep_shown,omitempty"` // deprecation messages this evaluation printed
	ErrKind  string            `json:"errkind,omitempty"`   // compile | exception | other
	Out      []string          `json:"out,omitempty"`
	Final    map[string]string `json:"final,omitempty"`
	Call     int64             `json:"call"`
	Ret      int64             `json:"ret"`
	OK       bool              `json:"ok"`
	Err      string            `json:"err,omitempty"`
	Task     int               `json:"task"`
	outVal   []string
}

type c39case struct {
	Tasks   [][]*c39op `json:"tasks"`
	Modules []string   `json:"modules"`
}

func runC39(c *Ctx) {
	w := c.T.Workload
	cs := &c39case{Modules: []string{"m1", "m2", "mbad"}}
	// globals that exist before the concurrent phase: p* get re-declared, q* deleted
	pre := []string{"p0", "p1", "q0", "q1", "q2"}
	c.Res.Case = cs
	dir, err := os.MkdirTemp("", "c39-")
	if err != nil {
		panic(err)
	}
	defer os.RemoveAll(dir)
	// m1, m2: import-time side effect (a tick) and a definition; mbad fails while importing.
	os.WriteFile(filepath.Join(dir, "m1.elv"), []byte("vtick m1\nvar x = one\nfn f { put m1f }\n"), 0o644)
	os.WriteFile(filepath.Join(dir, "m2.elv"), []byte("vtick m2\nuse m1\nvar y = $m1:x\n"), 0o644)
	os.WriteFile(filepath.Join(dir, "mbad.elv"), []byte("vtick mbad\nfail bad-module\n"), 0o644)

	ntasks := w.Range(2, 8)
	total := 0
	// Names a task may refer to: its own earlier definitions (certainly
	// there) and other tasks' definitions (there or not, depending on order).
	var allNames []string
	for t := 0; t < ntasks; t++ {
		nops := w.Range(1, 4)
		if total+nops > 24 {
			nops = 1
		}
		total += nops
		var ops []*c39op
		for i := 0; i < nops; i++ {
			op := &c39op{Task: t}
			name := fmt.Sprintf("g%d_%d", t, i)
			var parts []string
			k := w.Draw(10)
			switch {
			case k < 6:
				op.Kind = "eval"
				// optional read of a pre-existing global (its value is checked)
				if w.Chance(1, 3) {
					r := pre[w.Draw(len(pre))]
					op.Reads = append(op.Reads, r)
					parts = append(parts, "put $"+r)
				}
				// optional reference to somebody's definition
				if len(allNames) > 0 && w.Chance(1, 2) {
					ref := allNames[w.Draw(len(allNames))]
					op.Refs = append(op.Refs, ref)
					parts = append(parts, "put $"+ref)
				}
				if w.Chance(1, 2) {
					m := cs.Modules[w.Draw(len(cs.Modules))]
					op.Uses = append(op.Uses, m)
					parts = append(parts, "use "+m)
				}
				switch w.Draw(4) {
				case 0:
					parts = append(parts, "peach {|x| put $x } [a b c] | count")
				case 1:
					parts = append(parts, "run-parallel { put a } { put b }")
				case 2:
					parts = append(parts, "range 5 | each {|x| put $x } | count")
				}
				op.Defs = append(op.Defs, name)
				if w.Chance(1, 2) {
					parts = append(parts, fmt.Sprintf("var %s = v%s", name, name))
				} else {
					parts = append(parts, fmt.Sprintf("fn %s { put v%s }", name, name))
					op.Defs[0] = name + "~"
				}
				allNames = append(allNames, op.Defs[0])
				usesBad := len(op.Uses) > 0 && op.Uses[0] == "mbad"
				if !usesBad && w.Chance(1, 4) {
					// re-declaration of an existing global, with a unique value
					n := pre[w.Draw(2)]
					if len(op.Reads) == 0 || op.Reads[0] != n {
						op.Sets = map[string]string{n: "n" + name}
						parts = append(parts, fmt.Sprintf("var %s = n%s", n, name))
					}
				}
				if !usesBad && w.Chance(1, 6) {
					d := pre[2+w.Draw(3)]
					op.Dels = append(op.Dels, d)
					parts = append(parts, "del "+d)
				}
			case k < 8:
				op.Kind = "check"
				if len(allNames) > 0 {
					ref := allNames[w.Draw(len(allNames))]
					parts = append(parts, "put $"+ref)
				}
				parts = append(parts, "use m1", "echo $m1:x")
			case k == 8 && w.Chance(1, 2):
				// the same chunk under the same source name calls a deprecated
				// function: one call site, however many evaluations reach it
				op.Kind = "dep"
				op.Dep = true
				parts = append(parts, "dep")
			case k == 8:
				// a definition published through the Go API (what edit:add-var does)
				op.Kind = "extend"
				op.Defs = append(op.Defs, name)
				allNames = append(allNames, name)
			default:
				op.Kind = "call"
			}
			op.Code = strings.Join(parts, "; ")
			ops = append(ops, op)
		}
		cs.Tasks = append(cs.Tasks, ops)
	}

	ticks := map[string]int{}
	useOK := map[string]int{}
	opOf := map[string]*c39op{}       // goroutine -> the operation it is running
	bodyRuns := map[string][]*c39op{} // module -> operations whose import ran its body
	var lost []string
	var races []string
	var final map[string]string
	var finalStep int64
	checked, cross := 0, 0
	c.Bubble(func() {
		s := simrt.New(c.T)
		s.KeepTrace = c.Knobs["trace"] != ""
		s.EnableHB()
		s.Spawn("main", func() {
			ev := eval.NewEvaler()
			ev.LibDirs = []string{dir}
			// (in the builtin namespace, so that module code can call it)
			ev.ExtendBuiltin(eval.BuildNs().AddGoFns(map[string]any{
				"vtick": func(name string) {
					ticks[name]++
					if op := opOf[simrt.SelfID()]; op != nil {
						bodyRuns[name] = append(bodyRuns[name], op)
					}
					simrt.Yield("c39:tick")
				},
			}))
			// A closure for the "call" operations, obtained before the concurrent phase.
			var closure eval.Callable
			{
				outPort, collect, _ := eval.CapturePort()
				ev.Eval(parse.Source{Name: "[setup]", Code: "put {|| peach {|x| put $x } [1 2 3] | count }"},
					eval.EvalCfg{Ports: []*eval.Port{eval.DummyInputPort, outPort, outPort}})
				vs, _ := collect()
				if len(vs) == 1 {
					closure, _ = vs[0].(eval.Callable)
				}
			}
			for _, n := range pre {
				if err := ev.Eval(parse.Source{Name: "[setup]", Code: "var " + n + " = old"}, eval.EvalCfg{}); err != nil {
					panic(err)
				}
			}
			if err := ev.Eval(parse.Source{Name: "[setup-dep]", Code: "fn dep { deprecate old-stuff }"}, eval.EvalCfg{}); err != nil {
				panic(err)
			}
			done := make(chan struct{}, len(cs.Tasks))
			for ti, ops := range cs.Tasks {
				ti, ops := ti, ops
				go func() {
					defer func() { done <- struct{}{} }()
					for _, op := range ops {
						opOf[simrt.SelfID()] = op
						outPort, collect, err := eval.CapturePort()
						if err != nil {
							panic(err)
						}
						ports := []*eval.Port{eval.DummyInputPort, outPort, outPort}
						op.Call = int64(simrt.CurStep())*2 + 1
						var e error
						switch op.Kind {
						case "eval":
							e = ev.Eval(parse.Source{Name: fmt.Sprintf("[t%d]", ti), Code: op.Code}, eval.EvalCfg{Ports: ports})
						case "dep":
							e = ev.Eval(parse.Source{Name: "[dep]", Code: op.Code}, eval.EvalCfg{Ports: ports})
						case "extend":
							ev.ExtendGlobal(eval.BuildNs().AddVar(op.Defs[0], vars.NewReadOnly("v"+op.Defs[0])))
						case "check":
							_, _, e = ev.Check(parse.Source{Name: "[check]", Code: op.Code}, nil)
						case "call":
							if closure != nil {
								e = ev.Call(closure, eval.CallCfg{}, eval.EvalCfg{Ports: ports})
							}
						}
						op.Ret = int64(simrt.CurStep()) * 2
						vs, bs := collect()
						for _, v := range vs {
							op.outVal = append(op.outVal, fmt.Sprint(v))
						}
						op.DepShown = strings.Count(string(bs), "old-stuff")
						op.OK = e == nil
						op.Out = op.outVal
						if e != nil {
							op.Err = e.Error()
							switch {
							case eval.UnpackCompilationErrors(e) != nil:
								op.ErrKind = "compile"
							case isException(e):
								op.ErrKind = "exception"
							default:
								op.ErrKind = "other"
							}
						}
						if op.Kind == "eval" && e == nil {
							for _, m := range op.Uses {
								useOK[m]++
							}
						}
					}
				}()
			}
			for range cs.Tasks {
				<-done
			}
			// Definitions are never lost: whatever a completed operation
			// published must be in the global namespace at the end.
			g := ev.Global()
			final = map[string]string{}
			finalStep = int64(simrt.CurStep())*2 + 1
			for _, n := range pre {
				if v := g.IndexString(n); v != nil {
					final[n] = fmt.Sprint(v.Get())
				}
			}
			for _, task := range cs.Tasks {
				for _, op := range task {
					published := op.Kind == "extend" || (op.Kind == "eval" && (op.OK || op.ErrKind != "compile"))
					if !published {
						continue
					}
					for _, d := range op.Defs {
						if !g.HasKeyString(d) {
							lost = append(lost, fmt.Sprintf("%s (defined by task %d's %s %q)", d, op.Task, op.Kind, op.Code))
						}
					}
				}
			}
		})
		v := s.Run()
		if s.HB != nil {
			races = s.HB.Races
			checked, cross = s.HB.Checked, s.HB.CrossChecked
		}
		c.FinishSim(s, v)
	})
	if !c.Res.OK {
		return
	}
	if cross > 0 {
		c.Probe("designated-state-accessed-by-several-goroutines")
	}
	_ = checked
	// 2. happens-before monitor: one report per pair of call sites
	if len(races) > 0 {
		sort.Strings(races)
		seen := map[string]bool{}
		for _, r := range races {
			k := raceSites(r)
			if seen[k] {
				continue
			}
			seen[k] = true
			c.Violation("data-race", "unsynchronised conflicting accesses to interpreter state (%d reports in this run): %s", len(races), r)
		}
	}
	if !c.Res.OK {
		return
	}
	// 3c. a module whose body fails can never be imported successfully: in every
	// sequential order each import runs the body again and fails. A success
	// means the evaluation picked up the table entry of a concurrent import
	// that was still running (and failed later).
	for _, task := range cs.Tasks {
		for _, op := range task {
			if op.Kind != "eval" || !op.OK {
				continue
			}
			for _, m := range op.Uses {
				if m != "mbad" {
					continue
				}
				// The known finding is the CONCURRENT case: another import of
				// mbad was executing while this evaluation ran. A success with
				// no overlapping import is a different defect (e.g. a failed
				// module left in the table) and is reported as such.
				overlap := false
				for _, o := range bodyRuns["mbad"] {
					if o != op && o.Call < op.Ret && op.Call < o.Ret {
						overlap = true
					}
				}
				if overlap {
					c.Violation("module-loading-visible", "evaluation %q (task %d) imported module mbad successfully although its body always fails: it saw the module-table entry of a concurrent import that was still executing", op.Code, op.Task)
				} else {
					c.Violation("failed-module-imported", "evaluation %q (task %d) imported module mbad successfully although its body always fails, and no other import of it was in progress at the time", op.Code, op.Task)
				}
			}
		}
	}
	if len(lost) > 0 {
		c.Violation("lost-definition", "%d global definitions published by completed operations are missing from the global namespace at the end (lost update): %s", len(lost), strings.Join(lost, "; "))
	}
	// 3e. a deprecation is shown once per call site and interpreter: in every
	// sequential order the first evaluation that reaches it prints it, and
	// nobody else does.
	depRan, depShown := 0, 0
	for _, task := range cs.Tasks {
		for _, op := range task {
			if op.Kind == "dep" && op.ErrKind != "compile" {
				depRan++
			}
			depShown += op.DepShown
		}
	}
	if depRan > 0 {
		c.Probe("deprecated-function-called")
	}
	if (depRan > 0 && depShown != 1) || (depRan == 0 && depShown != 0) {
		c.Violation("deprecation-once", "%d evaluations called the deprecated function (one call site) and the deprecation was printed %d times; in every sequential order it is printed exactly once", depRan, depShown)
	}
	// 3d. a global that resolved when an evaluation was compiled cannot vanish
	// while it runs: sequentially, `put $q` either fails to compile or works.
	vanished := false
	for _, task := range cs.Tasks {
		for _, op := range task {
			if op.Kind == "eval" && op.ErrKind == "exception" && strings.Contains(op.Err, "not found") && strings.Contains(op.Err, "variable $") {
				vanished = true
				c.Violation("global-vanished-under-evaluation", "evaluation %q (task %d) was compiled while all its variables existed and then failed AT RUN TIME with %q: a concurrent `del` emptied the slot of the namespace it is running in (in every sequential order it either fails to compile or succeeds)", op.Code, op.Task, op.Err)
			}
		}
	}
	if !c.Res.OK {
		return
	}
	// 3a. evaluations behave as in some sequential order w.r.t. the global
	// namespace: which names resolve, which values the pre-existing globals
	// have, and what the namespace holds at the end.
	var ops []porcupine.Operation
	for _, task := range cs.Tasks {
		for _, op := range task {
			if op.Kind != "eval" && op.Kind != "extend" {
				continue
			}
			ops = append(ops, porcupine.Operation{ClientId: op.Task, Input: op, Call: op.Call, Output: op, Return: op.Ret})
		}
	}
	finalOp := &c39op{Kind: "final", Task: len(cs.Tasks), Final: final, Call: finalStep, Ret: finalStep + 1}
	cs.Tasks = append(cs.Tasks, []*c39op{finalOp})
	ops = append(ops, porcupine.Operation{ClientId: finalOp.Task, Input: finalOp, Call: finalOp.Call, Output: finalOp, Return: finalOp.Ret})
	init := ""
	{
		m := map[string]string{}
		for _, n := range pre {
			m[n] = "old"
		}
		init = encNames(m)
	}
	model := porcupine.Model{
		Init: func() interface{} { return init },
		Step: func(state, input, output interface{}) (bool, interface{}) {
			st := state.(string)
			op := input.(*c39op)
			have := decNames(st)
			if op.Kind == "final" {
				for _, n := range pre {
					want, ok := have[n]
					got, ok2 := op.Final[n]
					if ok != ok2 || want != got {
						return false, st
					}
				}
				return true, st
			}
			all := true
			for _, lists := range [][]string{op.Refs, op.Reads, op.Dels} {
				for _, r := range lists {
					if _, ok := have[r]; !ok {
						all = false
					}
				}
			}
			usesBad := false
			for _, m := range op.Uses {
				if m == "mbad" {
					usesBad = true
				}
			}
			if !all {
				// compilation must fail, nothing is defined
				return !op.OK && op.ErrKind == "compile", st
			}
			// values of the pre-existing globals read first. A global being
			// re-declared by an evaluation that is still running is visible with
			// its initial value (the namespace is published before the body
			// runs): accepted, the property is about which definitions resolve.
			for k, r := range op.Reads {
				if k >= len(op.Out) {
					return false, st
				}
				if op.Out[k] != have[r] && op.Out[k] != "<nil>" {
					return false, st
				}
			}
			for _, d := range op.Defs {
				if _, ok := have[d]; !ok {
					have[d] = ""
				}
			}
			if usesBad {
				// the failing module throws before the definitions that follow
				// it run; the variables are nevertheless declared at compile time.
				// (An import of the failing module that SUCCEEDS is reported by
				// the dedicated check above, under its own clause; here it is
				// accepted so that the rest of the history is still checked.)
				return op.OK || strings.Contains(op.Err, "bad-module"), encNames(have)
			}
			for n, v := range op.Sets {
				have[n] = v
			}
			for _, d := range op.Dels {
				delete(have, d)
			}
			return op.OK, encNames(have)
		},
	}
	switch porcupine.CheckOperationsTimeout(model, ops, 10*time.Second) {
	case porcupine.Illegal:
		var lines []string
		for _, o := range ops {
			op := o.Input.(*c39op)
			if op.Kind == "final" {
				lines = append(lines, fmt.Sprintf("end [%d,%d] namespace holds %v", op.Call, op.Ret, op.Final))
				continue
			}
			lines = append(lines, fmt.Sprintf("t%d [%d,%d] %s defs=%v refs=%v uses=%v reads=%v sets=%v dels=%v ok=%v out=%v err=%q", op.Task, op.Call, op.Ret, op.Kind, op.Defs, op.Refs, op.Uses, op.Reads, op.Sets, op.Dels, op.OK, firstN(op.Out, len(op.Reads)), op.Err))
		}
		c.Violation("serializability", "the evaluations' outcomes (which global names resolved, the values of re-declared globals, which definitions were published or deleted, the namespace at the end) match no sequential order:\n%s", strings.Join(lines, "\n"))
	case porcupine.Unknown:
		c.Probe("serializability-check-inconclusive")
	}
	_ = vanished
	// 3b. a module's body runs once, however many evaluations import it
	// concurrently (in any sequential order the second `use` finds it loaded).
	for _, m := range []string{"m1", "m2"} {
		if useOK[m] > 0 && ticks[m] > 1 {
			// The known finding is the CONCURRENT case: the imports that ran
			// the body overlapped in time. A body that runs again in an
			// evaluation that started after an earlier import had completed is
			// a different defect (the module is not cached) and is reported as such.
			runs := bodyRuns[m]
			sequential := false
			for i := range runs {
				for j := range runs {
					if runs[i] != runs[j] && runs[i].Ret < runs[j].Call {
						sequential = true
					}
				}
			}
			if sequential {
				c.Violation("module-reloaded", "module %s: an evaluation that started after an earlier evaluation had finished importing it evaluated the module's code again (%d executions in all): imported modules are not kept", m, ticks[m])
			} else {
				c.Violation("module-once", "module %s was imported successfully by %d evaluations and its body ran %d times; in every sequential order it runs once", m, useOK[m], ticks[m])
			}
		}
	}
}

func isException(e error) bool {
	_, ok := e.(eval.Exception)
	return ok
}

func firstN(a []string, n int) []string {
	if len(a) > n {
		return a[:n]
	}
	return a
}

// raceSites extracts the two call sites of a race report.
func raceSites(r string) string {
	var sites []string
	for _, f := range strings.Fields(r) {
		if strings.Contains(f, ".go:") {
			sites = append(sites, f)
		}
	}
	sort.Strings(sites)
	return strings.Join(sites, "|")
}

func encNames(m map[string]string) string {
	var ns []string
	for n, v := range m {
		ns = append(ns, n+"="+v)
	}
	sort.Strings(ns)
	return strings.Join(ns, ",")
}

func decNames(st string) map[string]string {
	m := map[string]string{}
	for _, e := range strings.Split(st, ",") {
		if e == "" {
			continue
		}
		n, v, _ := strings.Cut(e, "=")
		m[n] = v
	}
	return m
}
