package h

import (
	"bytes"
	"fmt"
	"os"
	"path/filepath"
	"sync"

	bolt "go.etcd.io/bbolt"
	"src.elv.sh/pkg/store"
)

// ---- C25: history survives a crash at any point -----------------------------
//
// The simulated disk is the seam added to a scratch copy of bbolt: every
// pwrite and truncate on the database file is logged. Because bbolt mutates
// the file only through these calls, the file content a SIGKILL would leave
// at any instant is exactly "the log applied up to some boundary" (plus, for a
// multi-page write in flight, a page-aligned prefix of it). Every such image
// is materialised and reopened with the real store code.

func init() { props["C25"] = runC25 }

type diskEv struct {
	op    int // index of the history operation in progress (-1 = open)
	trunc bool
	off   int64
	data  []byte
	size  int64
}

type diskRecorder struct {
	mu   sync.Mutex
	path string
	op   int
	log  []diskEv
}

func (d *diskRecorder) WriteAt(path string, b []byte, off int64, do func() (int, error)) (int, error) {
	if path == d.path {
		d.mu.Lock()
		d.log = append(d.log, diskEv{op: d.op, off: off, data: append([]byte(nil), b...)})
		d.mu.Unlock()
	}
	return do()
}

func (d *diskRecorder) Truncate(path string, size int64, do func() error) error {
	if path == d.path {
		d.mu.Lock()
		d.log = append(d.log, diskEv{op: d.op, trunc: true, size: size})
		d.mu.Unlock()
	}
	return do()
}

func applyDiskEv(img []byte, e diskEv, upto int) []byte {
	if e.trunc {
		if int64(len(img)) > e.size {
			return img[:e.size]
		}
		return append(img, make([]byte, e.size-int64(len(img)))...)
	}
	data := e.data
	if upto >= 0 && upto < len(data) {
		data = data[:upto]
	}
	end := e.off + int64(len(data))
	if int64(len(img)) < end {
		img = append(img, make([]byte, end-int64(len(img)))...)
	}
	copy(img[e.off:], data)
	return img
}

type c25case struct {
	Ops       []storeOp `json:"ops"`
	CrashAt   string    `json:"crash_at,omitempty"`
	Images    int       `json:"images"`
	TornImgs  int       `json:"torn_images"`
	Continued int       `json:"continued"`
	Depth2    int       `json:"second_level_images"`
}

// runHistory runs ops[from:] on the database at path starting from model m,
// checking every result, and returns the disk log, the model states after
// each operation (states[i] = state after ops[from+i-1]; states[0] = m) and
// the number of operations acknowledged.
func runHistory(c *Ctx, path string, ops []storeOp, m *storeModel, rec *diskRecorder, what string) (states []*storeModel, ok bool) {
	rec.op = -1
	st, err := store.NewStore(path)
	if err != nil {
		c.Violation("reopen", "%s: opening the database failed: %v", what, err)
		return nil, false
	}
	defer st.Close()
	states = []*storeModel{m.clone()}
	cur := m.clone()
	for i, o := range ops {
		rec.op = i
		got := applyReal(st, o)
		want := cur.apply(o)
		if err := compareResult(o, got, want, cur.visits); err != nil {
			c.Violation("model", "%s: operation #%d %+v: %v", what, i, o, err)
			return nil, false
		}
		states = append(states, cur.clone())
	}
	rec.op = len(ops)
	return states, true
}

// checkImage reopens a crash image and checks it against the allowed model
// states. It returns the index of the matching state.
func checkImageInner(c *Ctx, dir string, img []byte, allowed []*storeModel, maxAcked int, what string) (*storeModel, bool) {
	p := filepath.Join(dir, "crash.db")
	os.Remove(p)
	if err := os.WriteFile(p, img, 0o644); err != nil {
		panic(err)
	}
	st, err := openGuarded(p)
	if err != nil {
		c.Violation("reopen", "%s: reopening the database after the crash failed: %v", what, err)
		return nil, false
	}
	var match *storeModel
	var lastErr error
	for _, m := range allowed {
		if err := compareState(st, m); err == nil {
			match = m
			break
		} else {
			lastErr = err
		}
	}
	if match == nil {
		st.Close()
		c.Violation("prefix", "%s: the reopened history equals none of the %d allowed model states (every acknowledged operation, plus possibly the one in flight); against the newest allowed state: %v", what, len(allowed), lastErr)
		return nil, false
	}
	// Sequence numbers handed out now exceed every acknowledged one.
	seq, err := st.AddCmd("after-crash")
	st.Close()
	if err != nil {
		c.Violation("reopen", "%s: adding a command after reopening failed: %v", what, err)
		return nil, false
	}
	if seq <= maxAcked {
		c.Violation("sequence", "%s: after reopening, AddCmd returned sequence number %d, but %d had been acknowledged before the crash", what, seq, maxAcked)
		return nil, false
	}
	return match, true
}

func maxAckedSeq(m *storeModel) int { return m.next - 1 }

func runC25(c *Ctx) {
	maxOps := 14
	if c.Thorough() {
		maxOps = 40
	}
	ops := genStoreOps(c, maxOps, 6)
	cs := &c25case{Ops: ops}
	c.Res.Case = cs
	dir := storeTempDir()
	defer os.RemoveAll(dir)
	path := filepath.Join(dir, "db")
	rec := &diskRecorder{path: path}
	bolt.VerifDisk = rec
	defer func() { bolt.VerifDisk = nil }()

	states, ok := runHistory(c, path, ops, newStoreModel(), rec, "fault-free run")
	if !ok {
		return
	}
	// Self-check of the seam: the log reproduces the real file.
	real, err := os.ReadFile(path)
	if err != nil {
		panic(err)
	}
	var img []byte
	for _, e := range rec.log {
		img = applyDiskEv(img, e, -1)
	}
	if !bytes.Equal(img, real) {
		fmt.Fprintf(os.Stderr, "storesim: write log does not reproduce the database file (%d vs %d bytes): the seam misses a write path\n", len(img), len(real))
		os.Exit(2)
	}
	log := rec.log
	enumerate(c, cs, dir, log, ops, states, 1)
	c.Res.Sub = cs.Images + cs.TornImgs + cs.Depth2
	c.Res.Steps = len(log)
	c.Res.Choices = cs.Images + cs.TornImgs
	c.Res.Strategy = "crash-enumeration"
	c.Res.Sig = fmt.Sprintf("%x", hashOps(ops))
	c.Res.Hash = c.Res.Sig
	if cs.Images > 0 {
		c.Fault("crash")
	}
	for i := 0; i < cs.TornImgs; i++ {
		c.Fault("torn-write")
	}
	for i := 1; i < cs.Images; i++ {
		c.Fault("crash")
	}
}

// enumerate materialises every crash image of the logged run and checks it.
func enumerate(c *Ctx, cs *c25case, dir string, log []diskEv, ops []storeOp, states []*storeModel, depth int) {
	pageSize := os.Getpagesize()
	var img []byte
	// allowedAt(op): the crash happens while operation op is in progress
	// (op == -1: while the database is being opened, before any operation).
	allowedAt := func(op int) ([]*storeModel, int) {
		if op < 0 {
			return []*storeModel{states[0]}, maxAckedSeq(states[0])
		}
		if op >= len(ops) {
			return []*storeModel{states[len(ops)]}, maxAckedSeq(states[len(ops)])
		}
		// operations 0..op-1 acknowledged; op itself in flight: all or nothing
		return []*storeModel{states[op+1], states[op]}, maxAckedSeq(states[op])
	}
	check := func(image []byte, op int, what string, torn bool) bool {
		allowed, acked := allowedAt(op)
		if torn {
			cs.TornImgs++
		} else if depth == 1 {
			cs.Images++
		} else {
			cs.Depth2++
		}
		match, ok := checkImage(c, dir, image, allowed, acked, what)
		if !ok {
			if c.Res.OK {
				return true // a recorded known finding: skip this image, keep exploring
			}
			cs.CrashAt = what
			return false
		}
		// For a tape-chosen subset: restart from the image and continue the
		// rest of the history on it, checking every result ("crash, reopen,
		// continue"), and enumerate the crash points of that continuation too.
		if depth == 1 && c.T.Faults.Chance(1, 6) && op < len(ops) {
			cs.Continued++
			p2 := filepath.Join(dir, "cont.db")
			os.Remove(p2)
			if err := os.WriteFile(p2, image, 0o644); err != nil {
				panic(err)
			}
			from := op
			if from < 0 {
				from = 0
			}
			// resume after the matched state: if the in-flight operation took
			// effect, continue with the next one
			if op >= 0 && match == states[op+1] {
				from = op + 1
			}
			rec2 := &diskRecorder{path: p2}
			prev := bolt.VerifDisk
			bolt.VerifDisk = rec2
			st2, ok2 := runHistory(c, p2, ops[from:], match, rec2, what+", continuing from operation #"+fmt.Sprint(from))
			bolt.VerifDisk = prev
			if !ok2 {
				if c.Res.OK {
					return true
				}
				cs.CrashAt = what
				return false
			}
			if c.Thorough() && c.T.Faults.Chance(1, 4) {
				// second-level crashes: images of the continuation run start
				// from the first-level image
				base := append([]byte(nil), image...)
				enumerateFrom(c, cs, dir, base, rec2.log, ops[from:], st2, what)
				if !c.Res.OK {
					return false
				}
			}
		}
		return true
	}
	for k, e := range log {
		// crash before event k is the same image as after event k-1; check the
		// image after each event, and the empty/initial image first
		if k == 0 {
			if !check(nil, e.op, "process killed right after the database file was created, before the first write", false) {
				return
			}
		}
		if !e.trunc && len(e.data) > pageSize {
			for cut := pageSize; cut < len(e.data); cut += pageSize {
				torn := applyDiskEv(append([]byte(nil), img...), e, cut)
				what := fmt.Sprintf("process killed during write #%d (operation #%d %s; %d of %d bytes at offset %d had reached the file)", k, e.op, opName(ops, e.op), cut, len(e.data), e.off)
				if !check(torn, e.op, what, true) {
					return
				}
			}
		}
		img = applyDiskEv(img, e, -1)
		kind := "write"
		if e.trunc {
			kind = "truncate"
		}
		what := fmt.Sprintf("process killed right after %s #%d of %d (operation #%d %s)", kind, k, len(log), e.op, opName(ops, e.op))
		// After the last event of operation op the operation may or may not
		// have been acknowledged yet: op is still "in flight" for the oracle.
		if !check(append([]byte(nil), img...), e.op, what, false) {
			return
		}
	}
}

// enumerateFrom is enumerate for a continuation run that started from image base.
func enumerateFrom(c *Ctx, cs *c25case, dir string, base []byte, log []diskEv, ops []storeOp, states []*storeModel, prefix string) {
	img := base
	for k, e := range log {
		img = applyDiskEv(img, e, -1)
		var allowed []*storeModel
		var acked int
		switch {
		case e.op < 0:
			allowed, acked = []*storeModel{states[0]}, maxAckedSeq(states[0])
		case e.op >= len(ops):
			allowed, acked = []*storeModel{states[len(ops)]}, maxAckedSeq(states[len(ops)])
		default:
			allowed, acked = []*storeModel{states[e.op+1], states[e.op]}, maxAckedSeq(states[e.op])
		}
		cs.Depth2++
		what := fmt.Sprintf("%s; then a second kill right after write #%d of the continuation (operation #%d %s)", prefix, k, e.op, opName(ops, e.op))
		if _, ok := checkImage(c, dir, append([]byte(nil), img...), allowed, acked, what); !ok && !c.Res.OK {
			cs.CrashAt = what
			return
		}
	}
}

func opName(ops []storeOp, i int) string {
	if i < 0 {
		return "open"
	}
	if i >= len(ops) {
		return "close"
	}
	return ops[i].Kind
}
