// Package h holds the per-property simulation harnesses. It is copied into the
// scratch copy of the repository (src.elv.sh/zzverif/h) and, except for files
// named *_raw.go, instrumented by simrewrite like the code under test, so
// harness tasks are scheduled by the simulator too.
package h

import (
	"encoding/json"
	"fmt"
	"os"
	"regexp"
	"sort"
	"strconv"
	"strings"
	"sync"
	"testing"
	"testing/synctest"
	"time"

	"src.elv.sh/zzverif/simrt"
)

// Result is what one simulated run reports.
type Result struct {
	Prop     string         `json:"prop"`
	Seed     uint64         `json:"seed"`
	OK       bool           `json:"ok"`
	Class    string         `json:"class,omitempty"`  // panic|deadlock|leak|budget|oracle
	Clause   string         `json:"clause,omitempty"` // which oracle clause
	Detail   string         `json:"detail,omitempty"`
	Stack    string         `json:"stack,omitempty"`
	Steps    int            `json:"steps"`
	Choices  int            `json:"choices"`
	Hash     string         `json:"hash"`
	Sig      string         `json:"sig"`
	SimNS    int64          `json:"sim_ns"`
	Strategy string         `json:"strategy"`
	Gs       int            `json:"goroutines"`
	Faults   map[string]int `json:"faults,omitempty"`
	Probes   map[string]int `json:"probes,omitempty"`
	Case     any            `json:"case,omitempty"` // description of the generated case
	Trivial  bool           `json:"trivial,omitempty"`
	Sub      int            `json:"sub,omitempty"` // number of sub-evaluations (e.g. crash images) in this run
	// On failure:
	Tapes     *TapeDump          `json:"tapes,omitempty"`
	Trace     []simrt.TraceEntry `json:"trace,omitempty"`
	Known     string             `json:"known,omitempty"`
	KnownHits map[string]int     `json:"known_hits,omitempty"`
}

// TapeDump is the recorded decision tapes of a run.
type TapeDump struct {
	Workload []uint32 `json:"workload"`
	Sched    []uint32 `json:"sched"`
	Faults   []uint32 `json:"faults"`
}

// Ctx is handed to a property's run function.
type Ctx struct {
	T     *simrt.Tapes
	Tier  string
	Res   *Result
	Knobs map[string]string
	hash  uint64
	leftover int // goroutines of exited simulated processes left blocked (see Bubble)
	sig   uint64
}

func (c *Ctx) Fault(kind string) {
	if c.Res.Faults == nil {
		c.Res.Faults = map[string]int{}
	}
	c.Res.Faults[kind]++
}

func (c *Ctx) Probe(name string) {
	if c.Res.Probes == nil {
		c.Res.Probes = map[string]int{}
	}
	c.Res.Probes[name]++
}

// Violation records an oracle violation (first one wins).
//
// A violation that matches an open entry of /verif/known-findings.json (same
// property, class "oracle", clause, and the entry's regular expression over
// detail + case) is counted in KnownHits instead, and the run goes on, so that
// a recorded finding does not hide the rest of the exploration. It returns
// true when a (new) violation was recorded.
func (c *Ctx) Violation(clause, format string, args ...any) bool {
	if !c.Res.OK {
		return true
	}
	detail := fmt.Sprintf(format, args...)
	if len(detail) > 20000 {
		detail = detail[:20000] + "…(truncated)"
	}
	if id := matchKnownFinding(c.Res.Prop, "oracle", clause, detail, c.Res.Case); id != "" {
		if c.Res.KnownHits == nil {
			c.Res.KnownHits = map[string]int{}
		}
		c.Res.KnownHits[id]++
		return false
	}
	c.Res.OK = false
	c.Res.Class = "oracle"
	c.Res.Clause = clause
	c.Res.Detail = detail
	return true
}

type knownEntry struct {
	Property string `json:"property"`
	ID       string `json:"id"`
	Status   string `json:"status"`
	Class    string `json:"class"`
	Clause   string `json:"clause"`
	Match    string `json:"match"`
	re       *regexp.Regexp
}

var (
	knownOnce    sync.Once
	knownEntries []*knownEntry
)

func matchKnownFinding(prop, class, clause, detail string, cs any) string {
	knownOnce.Do(func() {
		p := os.Getenv("VERIF_KNOWN_FILE")
		if p == "" {
			return
		}
		b, err := os.ReadFile(p)
		if err != nil {
			return
		}
		var f struct {
			Findings []*knownEntry `json:"findings"`
		}
		if json.Unmarshal(b, &f) != nil {
			return
		}
		for _, k := range f.Findings {
			if k.Status != "open" {
				continue
			}
			re, err := regexp.Compile(k.Match)
			if err != nil {
				continue
			}
			k.re = re
			knownEntries = append(knownEntries, k)
		}
	})
	if len(knownEntries) == 0 {
		return ""
	}
	var csJSON []byte
	for _, k := range knownEntries {
		if k.Property != prop || (k.Class != "" && k.Class != class) || (k.Clause != "" && k.Clause != clause) {
			continue
		}
		if csJSON == nil {
			csJSON, _ = json.Marshal(cs)
		}
		if k.re.MatchString(detail + "\n" + string(csJSON)) {
			return k.ID
		}
	}
	return ""
}

// Thorough reports whether the thorough tier is selected.
func (c *Ctx) Thorough() bool { return c.Tier == "thorough" }

// RunFunc runs one simulation of a property inside a synctest bubble.
type RunFunc func(c *Ctx)

var props = map[string]RunFunc{}

// FinishSim copies the engine's bookkeeping into the result and converts an
// engine verdict into a failure.
func (c *Ctx) FinishSim(s *simrt.Sim, v *simrt.Verdict) {
	r := c.Res
	// A run may consist of several simulations (sub-evaluations): accumulate.
	r.Steps += s.Step
	r.Choices += s.Choices
	c.hash = c.hash*1099511628211 ^ s.Hash()
	c.sig = c.sig*1099511628211 ^ s.Signature()
	r.Hash = strconv.FormatUint(c.hash, 16)
	r.Sig = strconv.FormatUint(c.sig, 16)
	r.SimNS += int64(s.Now())
	c.leftover += s.Leftover
	r.Strategy = s.Strat.Name
	r.Gs = s.NumGoroutines()
	for k, n := range s.Probes {
		if r.Probes == nil {
			r.Probes = map[string]int{}
		}
		r.Probes[k] += n
	}
	if v != nil && r.OK {
		r.OK = false
		r.Class = v.Class
		r.Clause = v.Class
		r.Detail = v.Detail
		r.Stack = v.Stack
	}
	if s.KeepTrace {
		r.Trace = s.Trace
	}
}

// ReportRaces turns the reports of the happens-before monitor (if it was
// enabled for s) into violations, one per pair of call sites.
func (c *Ctx) ReportRaces(s *simrt.Sim) {
	if s.HB != nil && s.HB.CrossChecked > 0 {
		c.Probe("hb:designated-state-accessed-by-several-goroutines")
	}
	if s.HB == nil || len(s.HB.Races) == 0 {
		return
	}
	races := append([]string(nil), s.HB.Races...)
	sort.Strings(races)
	seen := map[string]bool{}
	for _, r := range races {
		var sites []string
		for _, f := range strings.Fields(r) {
			if strings.Contains(f, ".go:") {
				sites = append(sites, f)
			}
		}
		sort.Strings(sites)
		k := strings.Join(sites, "|")
		if seen[k] {
			continue
		}
		seen[k] = true
		c.Violation("data-race", "unsynchronised conflicting accesses to designated interpreter state (%d reports in this run): %s", len(races), r)
	}
}

func envInt(name string, def int64) int64 {
	if v := os.Getenv(name); v != "" {
		n, err := strconv.ParseInt(v, 10, 64)
		if err == nil {
			return n
		}
	}
	return def
}

// ReplayFile is the on-disk replay format.
type ReplayFile struct {
	Prop   string             `json:"property"`
	Seed   uint64             `json:"seed"`
	Tier   string             `json:"tier"`
	Knobs  map[string]string  `json:"knobs,omitempty"`
	Class  string             `json:"class"`
	Clause string             `json:"clause"`
	Detail string             `json:"detail"`
	Tapes  TapeDump           `json:"tapes"`
	Trace  []simrt.TraceEntry `json:"trace,omitempty"`
	Case   any                `json:"case,omitempty"`
	Shrink map[string]int     `json:"shrink,omitempty"`
}

func sortedKeys(m map[string]int) []string {
	ks := make([]string, 0, len(m))
	for k := range m {
		ks = append(ks, k)
	}
	sort.Strings(ks)
	return ks
}

func writeJSONLine(f *os.File, v any) {
	b, err := json.Marshal(v)
	if err != nil {
		fmt.Fprintln(os.Stderr, "marshal:", err)
		os.Exit(2)
	}
	b = append(b, '\n')
	if _, err := f.Write(b); err != nil {
		fmt.Fprintln(os.Stderr, "write result:", err)
		os.Exit(2)
	}
}

var _ = strings.Join
var _ = time.Now

var (
	workerOut *os.File
	workerT   *testing.T
)

func (c *Ctx) emitAndExitIfFailed() {
	if c.Res.OK {
		return
	}
	c.Res.Tapes = &TapeDump{Workload: c.T.Workload.Rec, Sched: c.T.Sched.Rec, Faults: c.T.Faults.Rec}
	writeJSONLine(workerOut, c.Res)
	workerOut.Sync()
	os.Exit(3)
}

// Bubble runs f inside a synctest bubble. If the run failed, the result is
// emitted and the process exits from inside the bubble, because a failed
// simulation leaves frozen goroutines behind and the bubble could not end.
func (c *Ctx) Bubble(f func()) {
	defer func() {
		// Goroutines of simulated processes that exited while those goroutines
		// were blocked for good stay blocked in the bubble (nothing can end
		// them from outside); synctest reports that when the bubble ends. It is
		// the simulator's stand-in for "the process is gone", not a finding.
		if r := recover(); r != nil {
			if c.leftover > 0 && strings.Contains(fmt.Sprint(r), "blocked goroutines remain") {
				c.Probe("threads-of-an-exited-process-left-blocked")
				return
			}
			panic(r)
		}
	}()
	synctest.Test(workerT, func(t *testing.T) {
		f()
		c.emitAndExitIfFailed()
	})
}
