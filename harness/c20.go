package h

import (
	"fmt"
	"sort"
	"strconv"
	"strings"
	"time"

	"src.elv.sh/pkg/eval"
	"src.elv.sh/pkg/eval/vals"
	"src.elv.sh/pkg/parse"
	"src.elv.sh/zzverif/simrt"
)

// ---- C20: peach and run-parallel -------------------------------------------

func init() { props["C20"] = runC20 }

type c20beh struct {
	DelayUS int    `json:"delay_us"`
	NV      int    `json:"nv"`
	NB      int    `json:"nb"`
	Outcome string `json:"outcome"` // ok | continue | break | fail
}

type c20case struct {
	Kind   string   `json:"kind"` // peach | run-parallel
	N      int      `json:"n"`
	Bound  string   `json:"bound"` // "" (default), "+inf", number
	Direct bool     `json:"direct"`
	Piped  bool     `json:"piped"`
	Beh    []c20beh `json:"beh"`
	Code   string   `json:"code"`
	Each   string   `json:"each_code,omitempty"`
}

type c20ev struct {
	idx   int
	start bool
	step  int
}

type c20env struct {
	cs      *c20case
	evs     []c20ev
	running int
	maxRun  int
}

func (e *c20env) call(fm *eval.Frame, x any) error {
	var idx int
	switch v := x.(type) {
	case int:
		idx = v
	case string:
		idx, _ = strconv.Atoi(v)
	default:
		return fmt.Errorf("bad input %v", x)
	}
	b := e.cs.Beh[idx]
	e.evs = append(e.evs, c20ev{idx, true, simrt.CurStep()})
	e.running++
	if e.running > e.maxRun {
		e.maxRun = e.running
	}
	if b.DelayUS > 0 {
		time.Sleep(time.Duration(b.DelayUS) * time.Microsecond)
	}
	vout, bout := fm.ValueOutput(), fm.ByteOutput()
	for j := 0; j < b.NV; j++ {
		if err := vout.Put(fmt.Sprintf("o%dv%d", idx, j)); err != nil {
			return err
		}
	}
	for j := 0; j < b.NB; j++ {
		if _, err := bout.WriteString(fmt.Sprintf("o%db%d\n", idx, j)); err != nil {
			return err
		}
	}
	e.running--
	e.evs = append(e.evs, c20ev{idx, false, simrt.CurStep()})
	switch b.Outcome {
	case "continue":
		return eval.Continue
	case "break":
		return eval.Break
	case "fail":
		return tagError{"f" + strconv.Itoa(idx)}
	}
	return nil
}

func genC20(c *Ctx) *c20case {
	w := c.T.Workload
	cs := &c20case{}
	max := 12
	if c.Thorough() {
		max = 60
		if w.Chance(1, 10) {
			max = 300
		}
	}
	switch w.Draw(4) {
	case 0:
		cs.N = w.Range(0, 3)
	default:
		cs.N = w.Range(0, max)
	}
	if w.Chance(1, 5) {
		cs.Kind = "run-parallel"
		if cs.N > 12 {
			cs.N = 12
		}
	} else {
		cs.Kind = "peach"
	}
	switch w.Draw(8) {
	case 0:
		cs.Bound = ""
	case 1:
		cs.Bound = "+inf"
	case 2:
		cs.Bound = "100000000000000000000"
	case 3, 4:
		cs.Bound = "1"
	default:
		cs.Bound = strconv.Itoa(w.Range(2, 8))
	}
	cs.Direct = w.Chance(1, 3)
	cs.Piped = w.Chance(1, 2)
	// how eventful the behaviour table is
	pBreak, pFail, pCont := 0, 0, 0
	switch w.Draw(5) {
	case 0: // all succeed
	case 1:
		pFail = 2
	case 4: // many callbacks fail, so that failures overlap
		pFail = 10
	case 2:
		pBreak = 1
		pCont = 2
	default:
		pBreak, pFail, pCont = 1, 2, 2
	}
	// Delays on a coarse grid make callbacks finish at the same simulated
	// instant, so that their completions (and failures) interleave.
	grid := w.Draw(3)
	for i := 0; i < cs.N; i++ {
		b := c20beh{Outcome: "ok"}
		switch {
		case grid == 0:
			b.DelayUS = 100 * w.Draw(3)
		case w.Chance(1, 4):
		case w.Chance(1, 3):
			b.DelayUS = 1 + 2*w.Draw(50)
		default:
			b.DelayUS = 1 + 2*w.Draw(2000)
		}
		b.NV = w.Draw(4)
		b.NB = w.Draw(3)
		r := w.Draw(20)
		switch {
		case r < pBreak:
			b.Outcome = "break"
		case r < pBreak+pFail:
			b.Outcome = "fail"
		case r < pBreak+pFail+pCont:
			b.Outcome = "continue"
		}
		cs.Beh = append(cs.Beh, b)
	}
	if cs.Kind == "run-parallel" {
		var fs []string
		for i := 0; i < cs.N; i++ {
			if cs.Beh[i].Outcome == "break" || cs.Beh[i].Outcome == "continue" {
				cs.Beh[i].Outcome = "ok"
			}
			fs = append(fs, fmt.Sprintf("{ vcb %d }", i))
		}
		cs.Code = "run-parallel " + strings.Join(fs, " ")
		return cs
	}
	f := "{|x| vcb $x }"
	if cs.Direct {
		f = "$vcb~"
	}
	opt := ""
	if cs.Bound != "" {
		opt = "&num-workers=" + cs.Bound + " "
	}
	if cs.Piped {
		cs.Code = fmt.Sprintf("range %d | peach %s%s", cs.N, opt, f)
		cs.Each = fmt.Sprintf("range %d | each %s", cs.N, f)
	} else {
		cs.Code = fmt.Sprintf("peach %s%s [(range %d)]", opt, f, cs.N)
		cs.Each = fmt.Sprintf("each %s [(range %d)]", f, cs.N)
	}
	return cs
}

type c20result struct {
	err     error
	evs     []c20ev
	maxRun  int
	retStep int
	vals    []string
	lines   []string
	verdict *simrt.Verdict
}

func simC20(c *Ctx, cs *c20case, code string, tapes *simrt.Tapes) *c20result {
	res := &c20result{}
	c.Bubble(func() {
		s := simrt.New(tapes)
		s.EnableHB()
		s.KeepTrace = c.Knobs["trace"] != ""
		env := &c20env{cs: cs}
		s.Spawn("main", func() {
			ev := eval.NewEvaler()
			ev.ExtendGlobal(eval.BuildNs().AddGoFns(map[string]any{"vcb": env.call}))
			outPort, collect, err := eval.CapturePort()
			if err != nil {
				panic(err)
			}
			errPort, collectErr, err := eval.CapturePort()
			if err != nil {
				panic(err)
			}
			res.err = ev.Eval(parse.Source{Name: "[c20]", Code: code},
				eval.EvalCfg{Ports: []*eval.Port{eval.DummyInputPort, outPort, errPort}})
			res.retStep = simrt.CurStep()
			vs, bs := collect()
			collectErr()
			for _, v := range vs {
				res.vals = append(res.vals, vals.ToString(v))
			}
			if len(bs) > 0 {
				res.lines = strings.Split(strings.TrimSuffix(string(bs), "\n"), "\n")
			}
		})
		v := s.Run()
		res.verdict = v
		res.evs = env.evs
		res.maxRun = env.maxRun
		c.FinishSim(s, v)
		if v == nil {
			c.ReportRaces(s)
		}
	})
	return res
}

func sortedCopy(a []string) []string {
	b := append([]string(nil), a...)
	sort.Strings(b)
	return b
}

func eqStrings(a, b []string) bool {
	if len(a) != len(b) {
		return false
	}
	for i := range a {
		if a[i] != b[i] {
			return false
		}
	}
	return true
}

func failTags(err error) []string {
	var tags []string
	for _, l := range errorLeaves(err) {
		if te, ok := l.(tagError); ok {
			tags = append(tags, te.tag)
		} else {
			tags = append(tags, "OTHER:"+l.Error())
		}
	}
	sort.Strings(tags)
	return tags
}

func startedOf(evs []c20ev) (started []int, perInput map[int]int, lastEnd int, unfinished []int) {
	perInput = map[int]int{}
	ended := map[int]int{}
	for _, e := range evs {
		if e.start {
			perInput[e.idx]++
			started = append(started, e.idx)
		} else {
			ended[e.idx]++
			if e.step > lastEnd {
				lastEnd = e.step
			}
		}
	}
	for idx, n := range perInput {
		if ended[idx] != n {
			unfinished = append(unfinished, idx)
		}
	}
	sort.Ints(unfinished)
	return
}

func checkC20(c *Ctx, cs *c20case, r *c20result, what string) {
	started, per, lastEnd, unfinished := startedOf(r.evs)
	anyStop := false
	for _, b := range cs.Beh {
		if b.Outcome == "break" || b.Outcome == "fail" {
			anyStop = true
		}
	}
	// at most once / exactly once
	for idx, n := range per {
		if n > 1 {
			c.Violation("once", "%s: callback for input %d started %d times", what, idx, n)
		}
	}
	if (!anyStop || cs.Kind == "run-parallel") && len(per) != cs.N {
		c.Violation("once", "%s: %d of %d inputs were processed although no callback breaks or fails", what, len(per), cs.N)
	}
	// bound
	if b, err := strconv.Atoi(cs.Bound); err == nil && cs.Kind == "peach" && what == "peach" && r.maxRun > b {
		c.Violation("bound", "%s: %d callbacks ran at once, bound is %d", what, r.maxRun, b)
	}
	// returns after all started callbacks finished
	if len(unfinished) > 0 {
		c.Violation("wait", "%s returned (or ended) while callbacks for inputs %v had started but not finished", what, unfinished)
	}
	if lastEnd > r.retStep {
		c.Violation("wait", "%s returned at step %d before the last callback finished at step %d", what, r.retStep, lastEnd)
	}
	// outputs = union of outputs of started callbacks
	var wantV, wantB []string
	for _, idx := range started {
		for j := 0; j < cs.Beh[idx].NV; j++ {
			wantV = append(wantV, fmt.Sprintf("o%dv%d", idx, j))
		}
		for j := 0; j < cs.Beh[idx].NB; j++ {
			wantB = append(wantB, fmt.Sprintf("o%db%d", idx, j))
		}
	}
	if !eqStrings(sortedCopy(wantV), sortedCopy(r.vals)) {
		c.Violation("outputs", "%s: value outputs %v differ from the union of the started callbacks' outputs %v", what, sortedCopy(r.vals), sortedCopy(wantV))
	}
	if !eqStrings(sortedCopy(wantB), sortedCopy(r.lines)) {
		c.Violation("outputs", "%s: byte outputs %v differ from the union of the started callbacks' outputs %v", what, sortedCopy(r.lines), sortedCopy(wantB))
	}
	// exceptions: exactly the failures of started callbacks
	var wantTags []string
	for _, idx := range started {
		if cs.Beh[idx].Outcome == "fail" {
			wantTags = append(wantTags, "f"+strconv.Itoa(idx))
		}
	}
	sort.Strings(wantTags)
	got := failTags(r.err)
	if what == "each" {
		// each stops at the first failure, which is the only one it can report
		if len(wantTags) > 1 {
			wantTags = wantTags[:1]
		}
	}
	if !eqStrings(wantTags, got) {
		c.Violation("exceptions", "%s reported exceptions %v, started callbacks failed with %v (error: %v)", what, got, wantTags, r.err)
	}
}

func runC20(c *Ctx) {
	cs := genC20(c)
	c.Res.Case = cs
	r := simC20(c, cs, cs.Code, c.T)
	c.Res.Sub++
	if r.verdict != nil {
		return
	}
	checkC20(c, cs, r, cs.Kind)
	if !c.Res.OK || cs.Kind != "peach" || cs.Bound != "1" {
		return
	}
	// One worker: must behave exactly like each.
	e := simC20(c, cs, cs.Each, simrt.NewTapes(c.T.Seed*7+1))
	c.Res.Sub++
	if e.verdict != nil {
		return
	}
	checkC20(c, cs, e, "each")
	if !c.Res.OK {
		return
	}
	ps, _, _, _ := startedOf(r.evs)
	es, _, _, _ := startedOf(e.evs)
	if fmt.Sprint(ps) != fmt.Sprint(es) {
		c.Violation("each-equivalence", "peach &num-workers=1 started callbacks for inputs %v, each for %v", ps, es)
	}
	if !eqStrings(r.vals, e.vals) || !eqStrings(r.lines, e.lines) {
		c.Violation("each-equivalence", "peach &num-workers=1 output %v %v, each output %v %v", r.vals, r.lines, e.vals, e.lines)
	}
	if !eqStrings(failTags(r.err), failTags(e.err)) {
		c.Violation("each-equivalence", "peach &num-workers=1 reported %v, each reported %v", failTags(r.err), failTags(e.err))
	}
}
