package h

import (
	"errors"
	"fmt"
	"sort"
	"sync"
	"time"

	"src.elv.sh/pkg/cli"
	"src.elv.sh/zzverif/simrt"
)

// ---- C32: the editor event loop handles events serially and never loses a
// redraw -----------------------------------------------------------------------

func init() { props["C32"] = runC32 }

type c32op struct {
	Kind   string `json:"k"` // input | redraw | return
	ID     int    `json:"id,omitempty"`
	Full   bool   `json:"full,omitempty"`
	Action string `json:"action,omitempty"` // what the handler does for this input: "", redraw, redraw-full, return
}

type c32case struct {
	Producers [][]c32op `json:"producers"`
	Flood     bool      `json:"flood,omitempty"`
}

type c32rec struct {
	kind     string // input | redraw | return | handle | redrawcb
	id       int
	full     bool
	flag     uint
	invoke   int
	done     int
	gid      string
	producer int
}

func runC32(c *Ctx) {
	w := c.T.Workload
	cs := &c32case{}
	c.Res.Case = cs
	np := w.Range(1, 4)
	cs.Flood = w.Chance(1, 8)
	nextID := 1
	for p := 0; p < np; p++ {
		n := w.Range(0, 12)
		if cs.Flood {
			n = w.Range(40, 90)
		}
		var ops []c32op
		for i := 0; i < n; i++ {
			k := w.Draw(20)
			switch {
			case k < 10 || cs.Flood && k < 17:
				o := c32op{Kind: "input", ID: nextID}
				nextID++
				switch w.Draw(12) {
				case 0:
					o.Action = "redraw"
				case 1:
					o.Action = "redraw-full"
				case 2:
					if !cs.Flood {
						o.Action = "return"
					}
				}
				ops = append(ops, o)
			case k < 18:
				ops = append(ops, c32op{Kind: "redraw", Full: w.Chance(1, 2)})
			default:
				if !cs.Flood {
					ops = append(ops, c32op{Kind: "return", ID: nextID})
					nextID++
				}
			}
		}
		cs.Producers = append(cs.Producers, ops)
	}
	c.Bubble(func() {
		s := simrt.New(c.T)
		s.EnableHB()
		s.KeepTrace = c.Knobs["trace"] != ""
		lp := cli.VerifNewLoop()
		var recs []*c32rec
		var loopGID string
		inCallback := 0
		actions := map[int]string{}
		for _, ops := range cs.Producers {
			for _, o := range ops {
				if o.Kind == "input" {
					actions[o.ID] = o.Action
				}
			}
		}
		retErr := func(id int) error { return errors.New("err" + fmt.Sprint(id)) }
		lp.HandleCb(func(e any) {
			id := e.(int)
			r := &c32rec{kind: "handle", id: id, invoke: simrt.CurStep(), gid: simrt.SelfID()}
			recs = append(recs, r)
			inCallback++
			if inCallback > 1 {
				c.Violation("serial", "handle callback for event %d entered while another callback is running", id)
			}
			simrt.Yield("c32:handle")
			switch actions[id] {
			case "redraw", "redraw-full":
				rr := &c32rec{kind: "redraw", full: actions[id] == "redraw-full", invoke: simrt.CurStep(), producer: -1}
				lp.Redraw(rr.full)
				rr.done = simrt.CurStep()
				recs = append(recs, rr)
			case "return":
				rr := &c32rec{kind: "return", id: -id, invoke: simrt.CurStep(), producer: -1}
				lp.Return("buf"+fmt.Sprint(-id), retErr(-id))
				rr.done = simrt.CurStep()
				recs = append(recs, rr)
			}
			inCallback--
			r.done = simrt.CurStep()
		})
		lp.RedrawCb(func(flag uint) {
			r := &c32rec{kind: "redrawcb", flag: flag, invoke: simrt.CurStep(), gid: simrt.SelfID()}
			recs = append(recs, r)
			inCallback++
			if inCallback > 1 {
				c.Violation("serial", "redraw callback entered while another callback is running")
			}
			simrt.Yield("c32:redraw")
			inCallback--
			r.done = simrt.CurStep()
		})
		var runBuf string
		var runErr error
		runDone := -1
		var producers sync.WaitGroup
		producers.Add(len(cs.Producers))
		s.Spawn("loop", func() {
			loopGID = simrt.SelfID()
			runBuf, runErr = lp.Run()
			runDone = simrt.CurStep()
		})
		for pi, ops := range cs.Producers {
			pi, ops := pi, ops
			s.Spawn("producer", func() {
				defer producers.Done()
				for _, o := range ops {
					r := &c32rec{kind: o.Kind, id: o.ID, full: o.Full, invoke: simrt.CurStep(), producer: pi}
					switch o.Kind {
					case "input":
						if runDone >= 0 || lp.HasReturned() {
							// nobody reads events any more; a real terminal reader
							// is stopped before the loop is abandoned
							return
						}
						lp.Input(o.ID)
					case "redraw":
						lp.Redraw(o.Full)
					case "return":
						lp.Return("buf"+fmt.Sprint(o.ID), retErr(o.ID))
					}
					r.done = simrt.CurStep()
					recs = append(recs, r)
				}
			})
		}
		// A closer makes sure the loop ends: it returns after all producers are done.
		s.Spawn("closer", func() {
			producers.Wait()
			// Fake time only advances when every goroutine is blocked: after
			// this sleep the loop is idle in its select with nothing pending.
			time.Sleep(time.Second)
			r := &c32rec{kind: "return", id: 0, invoke: simrt.CurStep(), producer: -2}
			lp.Return("buf0", retErr(0))
			r.done = simrt.CurStep()
			recs = append(recs, r)
		})
		v := s.Run()
		c.FinishSim(s, v)
		if v == nil {
			c.ReportRaces(s)
		}
		if v != nil {
			return
		}
		checkC32(c, cs, recs, loopGID, runBuf, runErr, runDone)
	})
}

func checkC32(c *Ctx, cs *c32case, recs []*c32rec, loopGID, runBuf string, runErr error, runDone int) {
	if runDone < 0 {
		c.Violation("return", "Run never returned although Return was called")
		return
	}
	var cbs, redrawReqs, returns, inputs []*c32rec
	for _, r := range recs {
		switch r.kind {
		case "handle", "redrawcb":
			cbs = append(cbs, r)
			if r.gid != loopGID {
				c.Violation("serial", "callback %s ran on goroutine %s, the loop runs on %s", r.kind, r.gid, loopGID)
			}
		case "redraw":
			redrawReqs = append(redrawReqs, r)
		case "return":
			returns = append(returns, r)
		case "input":
			inputs = append(inputs, r)
		}
	}
	// Callbacks are serial: entered in order, each finished before the next starts.
	sort.SliceStable(cbs, func(i, j int) bool { return cbs[i].invoke < cbs[j].invoke })
	for i := 1; i < len(cbs); i++ {
		if cbs[i].invoke < cbs[i-1].done {
			c.Violation("serial", "callback %s (step %d) started before the previous callback %s finished (step %d)", cbs[i].kind, cbs[i].invoke, cbs[i-1].kind, cbs[i-1].done)
		}
	}
	// Exactly one final redraw, and it is the last callback.
	finals := 0
	finalAt := -1
	for i, r := range cbs {
		if r.kind == "redrawcb" && r.flag&cli.VerifFinalRedraw != 0 {
			finals++
			finalAt = r.invoke
			if i != len(cbs)-1 {
				c.Violation("final", "the final redraw (step %d) is not the last callback: %s follows at step %d", r.invoke, cbs[i+1].kind, cbs[i+1].invoke)
			}
		}
	}
	if finals != 1 {
		c.Violation("final", "%d final redraws, expected exactly 1", finals)
		return
	}
	if len(cbs) == 0 || cbs[0].kind != "redrawcb" || cbs[0].invoke > runDone {
		c.Violation("final", "the loop did not start with a redraw")
	}
	// Events are handled one at a time in arrival order: the handled
	// sequence is a prefix of the inputs ordered by the step their send
	// completed (exact when the input buffer never filled; per producer otherwise).
	var handled []int
	for _, r := range cbs {
		if r.kind == "handle" {
			handled = append(handled, r.id)
		}
	}
	seenH := map[int]bool{}
	for _, id := range handled {
		if seenH[id] {
			c.Violation("order", "event %d was handled twice", id)
		}
		seenH[id] = true
	}
	sort.SliceStable(inputs, func(i, j int) bool { return inputs[i].done < inputs[j].done })
	if !cs.Flood {
		if len(handled) > len(inputs) {
			c.Violation("order", "%d events handled but only %d were sent", len(handled), len(inputs))
		} else {
			for i, id := range handled {
				if inputs[i].id != id {
					c.Violation("order", "event #%d handled is %d, but the %d-th event to arrive was %d (arrival order %v, handled %v)", i, id, i, inputs[i].id, ids(inputs), handled)
					break
				}
			}
		}
	} else {
		// per producer order, no invention
		sent := map[int]int{}
		for _, r := range inputs {
			sent[r.id] = r.producer
		}
		last := map[int]int{}
		pos := map[int]int{}
		for pi, ops := range cs.Producers {
			k := 0
			for _, o := range ops {
				if o.Kind == "input" {
					pos[o.ID] = k
					k++
				}
			}
			last[pi] = -1
		}
		owner := map[int]int{}
		for pi, ops := range cs.Producers {
			for _, o := range ops {
				if o.Kind == "input" {
					owner[o.ID] = pi
				}
			}
		}
		for _, id := range handled {
			pi, ok := owner[id]
			if !ok {
				c.Violation("order", "handled event %d was never sent", id)
				break
			}
			if pos[id] != last[pi]+1 {
				c.Violation("order", "producer %d's events were handled out of order or with a gap: event %d (its #%d) after its #%d", pi, id, pos[id], last[pi])
				break
			}
			last[pi] = pos[id]
		}
	}
	// Every redraw request made before the loop returned is followed by a
	// redraw that starts after it; a full request by a full (or the final) one.
	//
	// Two situations. (a) The loop was ended by the closer, which returns only
	// after the whole system has been idle for a simulated second: then the
	// loop had every chance, so each request needs an ordinary (non-final)
	// redraw after it, and each full request an ordinary FULL redraw after it.
	// (b) Some earlier Return won: the loop may legitimately have returned
	// before serving a request; then only what must hold in any case is
	// checked: a later redraw exists (the final one counts), and if two or more
	// ordinary redraws started after a full request, one of the first two is
	// full (only the first may have read the flag before the request).
	sort.SliceStable(returns, func(i, j int) bool { return returns[i].done < returns[j].done })
	quiescentEnd := len(returns) > 0 && returns[0].producer == -2
	for _, q := range redrawReqs {
		if q.done >= finalAt {
			continue // the loop was already returning
		}
		var after []*c32rec // ordinary redraws that started after the request
		finalAfter := false
		for _, r := range cbs {
			if r.kind == "redrawcb" && r.invoke > q.done {
				if r.flag&cli.VerifFinalRedraw != 0 {
					finalAfter = true
				} else {
					after = append(after, r)
				}
			}
		}
		fullAmong := func(rs []*c32rec) bool {
			for _, r := range rs {
				if r.flag&cli.VerifFullRedraw != 0 {
					return true
				}
			}
			return false
		}
		switch {
		case quiescentEnd && len(after) == 0:
			c.Violation("redraw", "the redraw request that completed at step %d (full=%v) was never followed by a redraw although the loop stayed idle until the final return at step %d", q.done, q.full, finalAt)
		case quiescentEnd && q.full && !fullAmong(after):
			c.Violation("redraw", "the FULL redraw request that completed at step %d was followed by %d partial redraws only (downgraded)", q.done, len(after))
		case !quiescentEnd && len(after) == 0 && !finalAfter:
			c.Violation("redraw", "the redraw request that completed at step %d (full=%v) was never followed by any redraw", q.done, q.full)
		case !quiescentEnd && q.full && len(after) >= 2 && !fullAmong(after[:2]):
			c.Violation("redraw", "the FULL redraw request that completed at step %d was followed by two partial redraws (steps %d, %d): downgraded", q.done, after[0].invoke, after[1].invoke)
		}
	}
	// The loop returns the first committed result.
	sort.SliceStable(returns, func(i, j int) bool { return returns[i].done < returns[j].done })
	if len(returns) == 0 {
		c.Violation("return", "no Return recorded")
		return
	}
	first := returns[0]
	wantBuf := "buf" + fmt.Sprint(first.id)
	if runBuf != wantBuf || runErr == nil || runErr.Error() != "err"+fmt.Sprint(first.id) {
		c.Violation("return", "Run returned (%q, %v); the first Return call (completed at step %d) committed (%q, err%d); all returns: %v", runBuf, runErr, first.done, wantBuf, first.id, retIDs(returns))
	}
	if len(returns) > 1 {
		c.Probe("competing-returns")
	}
	if len(handled) < len(inputs) {
		c.Probe("events-left-unhandled-at-return")
	}
}

func ids(rs []*c32rec) []int {
	var out []int
	for _, r := range rs {
		out = append(out, r.id)
	}
	return out
}

func retIDs(rs []*c32rec) []string {
	var out []string
	for _, r := range rs {
		out = append(out, fmt.Sprintf("%d@%d", r.id, r.done))
	}
	return out
}
