package h

import (
	"fmt"
	"os"
	"path/filepath"
	"strings"

	"src.elv.sh/pkg/cli/histutil"
	"src.elv.sh/pkg/store"
	"src.elv.sh/pkg/store/storedefs"
)

// ---- C29: history navigation across sessions --------------------------------
//
// Sessions are the "nodes"; the shared database is the real store on a file.
// The tape interleaves, at operation granularity, additions by any session
// with the steps of any session's walk.

func init() { props["C29"] = runC29 }

type c29event struct {
	Op      string `json:"op"`
	Session int    `json:"s,omitempty"`
	Text    string `json:"text,omitempty"`
	Prefix  string `json:"prefix,omitempty"`
	Dedup   bool   `json:"dedup,omitempty"`
	Cursor  int    `json:"cursor,omitempty"`
}

type sessModel struct {
	st    histutil.Store
	upper int
	own   []storedefs.Cmd
}

type curModel struct {
	sess  int
	cur   histutil.Cursor
	view  []storedefs.Cmd // plain: oldest..newest ; dedup: newest..oldest distinct
	pos   int
	dedup bool
	desc  string
}

func runC29(c *Ctx) {
	w := c.T.Workload
	dir := storeTempDir()
	defer os.RemoveAll(dir)
	db, err := store.NewStore(filepath.Join(dir, "db"))
	if err != nil {
		panic(err)
	}
	defer db.Close()
	texts := []string{"ls", "ls -l", "ls -la", "echo a", "echo b", "git status", "git commit", "g", "", "make", "ls"}
	prefixes := []string{"", "l", "ls", "ls -l", "e", "echo ", "g", "git ", "x", "m"}
	// Swarm knob: one run in four uses a larger vocabulary, a longer stored
	// history and walks that keep going in one direction for a long time, so
	// that walks get deep (dozens of distinct entries) rather than hovering
	// around the newest few.
	big := w.Chance(1, 4)
	if big {
		texts = nil
		for i := 0; i < 16; i++ {
			texts = append(texts, fmt.Sprintf("c%d", i))
		}
		prefixes = []string{"", "", "c", "c1", "x"}
	}
	backBias := true
	var all []storedefs.Cmd // the shared database, in sequence order
	addShared := func(text string) int {
		seq, err := db.AddCmd(text)
		if err != nil {
			panic(err)
		}
		all = append(all, storedefs.Cmd{Text: text, Seq: seq})
		return seq
	}
	nPre := w.Range(0, 12)
	if c.Thorough() {
		nPre = w.Range(0, 40)
	}
	if big {
		nPre = w.Range(10, 50)
	}
	var events []c29event
	for i := 0; i < nPre; i++ {
		t := texts[w.Draw(len(texts))]
		addShared(t)
		events = append(events, c29event{Op: "stored", Text: t})
	}
	var sessions []*sessModel
	var cursors []*curModel
	newSession := func() {
		st, err := histutil.NewHybridStore(db)
		if err != nil {
			c.Violation("session", "NewHybridStore failed: %v", err)
			return
		}
		next := 1
		if len(all) > 0 {
			next = all[len(all)-1].Seq + 1
		}
		sessions = append(sessions, &sessModel{st: st, upper: next})
		events = append(events, c29event{Op: "session", Session: len(sessions) - 1})
	}
	newSession()
	nEv := w.Range(5, 60)
	if c.Thorough() {
		nEv = w.Range(5, 200)
	}
	if big {
		nEv = w.Range(40, 160)
	}
	viewOf := func(s *sessModel, prefix string) []storedefs.Cmd {
		var v []storedefs.Cmd
		for _, cmd := range all {
			if cmd.Seq < s.upper && strings.HasPrefix(cmd.Text, prefix) {
				v = append(v, cmd)
			}
		}
		for _, cmd := range s.own {
			if strings.HasPrefix(cmd.Text, prefix) {
				v = append(v, cmd)
			}
		}
		return v
	}
	walks, concurrentDuringWalk := 0, 0
	for i := 0; i < nEv && c.Res.OK; i++ {
		k := w.Draw(20)
		switch {
		case k == 0 && len(sessions) < 3:
			newSession()
		case k <= 4:
			// some session adds a command (through its hybrid store)
			si := w.Draw(len(sessions))
			s := sessions[si]
			t := texts[w.Draw(len(texts))]
			seq, err := s.st.AddCmd(storedefs.Cmd{Text: t, Seq: -1})
			if err != nil {
				c.Violation("add", "session %d AddCmd failed: %v", si, err)
				break
			}
			want := 1
			if len(all) > 0 {
				want = all[len(all)-1].Seq + 1
			}
			if seq != want {
				c.Violation("add", "session %d AddCmd returned sequence number %d, expected %d", si, seq, want)
			}
			all = append(all, storedefs.Cmd{Text: t, Seq: seq})
			s.own = append(s.own, storedefs.Cmd{Text: t, Seq: seq})
			events = append(events, c29event{Op: "add", Session: si, Text: t})
			for _, cm := range cursors {
				if cm.sess != si {
					concurrentDuringWalk++
				}
			}
		case k == 5:
			// an outside process adds directly to the database
			t := texts[w.Draw(len(texts))]
			addShared(t)
			events = append(events, c29event{Op: "outside-add", Text: t})
			concurrentDuringWalk += len(cursors)
		case k <= 8 || len(cursors) == 0:
			// open a cursor
			si := w.Draw(len(sessions))
			s := sessions[si]
			p := prefixes[w.Draw(len(prefixes))]
			dd := w.Chance(1, 2)
			cur := s.st.Cursor(p)
			view := viewOf(s, p)
			cm := &curModel{sess: si, dedup: dd, desc: fmt.Sprintf("session %d cursor(prefix=%q, dedup=%v)", si, p, dd)}
			if dd {
				cur = histutil.NewDedupCursor(cur)
				seen := map[string]bool{}
				for j := len(view) - 1; j >= 0; j-- {
					if !seen[view[j].Text] {
						seen[view[j].Text] = true
						cm.view = append(cm.view, view[j])
					}
				}
				cm.pos = -1
			} else {
				cm.view = view
				cm.pos = len(view)
			}
			cm.cur = cur
			if len(cursors) >= 4 {
				cursors = cursors[1:]
			}
			cursors = append(cursors, cm)
			walks++
			events = append(events, c29event{Op: "cursor", Session: si, Prefix: p, Dedup: dd})
		case k == 9:
			// AllCmds of a session
			si := w.Draw(len(sessions))
			s := sessions[si]
			got, err := s.st.AllCmds()
			want := viewOf(s, "")
			if err != nil || len(got) != len(want) {
				c.Violation("all", "session %d AllCmds returned %v (err %v), model %v", si, got, err, want)
				break
			}
			for j := range got {
				if got[j] != want[j] {
					c.Violation("all", "session %d AllCmds entry %d is %v, model %v", si, j, got[j], want[j])
					break
				}
			}
		default:
			// one step of a walk
			ci := w.Draw(len(cursors))
			cm := cursors[ci]
			back := w.Chance(3, 5)
			if big {
				// long runs in one direction, occasionally reversed
				if w.Chance(1, 25) {
					backBias = !backBias
				}
				back = w.Chance(9, 10) == backBias
			}
			n := len(cm.view)
			// In both models "backward" (Prev) moves towards older entries.
			if cm.dedup {
				if back {
					if cm.pos < n {
						cm.pos++
					}
				} else if cm.pos > -1 {
					cm.pos--
				}
			} else {
				if back {
					if cm.pos > -1 {
						cm.pos--
					}
				} else if cm.pos < n {
					cm.pos++
				}
			}
			move := "Next"
			if back {
				cm.cur.Prev()
				move = "Prev"
			} else {
				cm.cur.Next()
			}
			events = append(events, c29event{Op: move, Cursor: ci})
			got, err := cm.cur.Get()
			if cm.pos < 0 || cm.pos >= n {
				if err != histutil.ErrEndOfHistory {
					c.Violation("walk", "%s after %s: Get returned (%v, %v), model says end of history (position %d of %d, view %v)", cm.desc, move, got, err, cm.pos, n, cm.view)
				}
			} else if err != nil || got != cm.view[cm.pos] {
				c.Violation("walk", "%s after %s: Get returned (%v, %v), model says %v (position %d of view %v)", cm.desc, move, got, err, cm.view[cm.pos], cm.pos, cm.view)
			}
		}
	}
	c.Res.Case = map[string]any{"events": events}
	c.Res.Steps = len(events)
	c.Res.Choices = len(events)
	c.Res.Strategy = "session-interleaving"
	if concurrentDuringWalk > 0 {
		c.Probe("addition-by-another-party-during-a-walk")
	}
	c.Res.Trivial = walks == 0
	h := uint64(14695981039346656037)
	for _, e := range events {
		for _, b := range []byte(fmt.Sprintf("%+v|", e)) {
			h = (h ^ uint64(b)) * 1099511628211
		}
	}
	c.Res.Sig = fmt.Sprintf("%x", h)
	c.Res.Hash = c.Res.Sig
}
