package h

import "src.elv.sh/zzverif/simrt"

// dropConnAtStep arranges for the scheduler to close the idx-th dialed
// connection at step k (if it exists by then; otherwise at the first later
// step at which it does). Runs on the scheduler goroutine.
func dropConnAtStep(s *simrt.Sim, k, idx int, fired func()) {
	prev := s.OnStep
	done := false
	s.OnStep = func(step int) error {
		if !done && step >= k && s.DropConn(idx) {
			done = true
			s.Note("fault:connection-drop")
			fired()
		}
		if prev != nil {
			return prev(step)
		}
		return nil
	}
}
