package h

import (
	"fmt"
	"os"
	"path/filepath"
	"sort"
	"strings"
	"sync"
	"time"

	"github.com/anishathalye/porcupine"
	"src.elv.sh/pkg/daemon"
	"src.elv.sh/pkg/daemon/daemondefs"
	"src.elv.sh/pkg/store/storedefs"
	"src.elv.sh/zzverif/simrt"
)

// ---- C26: concurrent clients of the daemon see a linearizable history --------

func init() { props["C26"] = runC26 }

type c26op struct {
	Client int           `json:"client"`
	Op     storeOp       `json:"op"`
	Call   int64         `json:"call"`
	Ret    int64         `json:"ret"`
	Res    c26res        `json:"res"`
	Failed bool          `json:"failed,omitempty"`
	Err    string        `json:"err,omitempty"`
	res    storeResult
}

type c26res struct {
	Seq  int    `json:"seq,omitempty"`
	Text string `json:"text,omitempty"`
	N    int    `json:"n,omitempty"`
	Err  string `json:"err,omitempty"`
}

type c26case struct {
	Clients  int     `json:"clients"`
	Shared   []int   `json:"shared_client_tasks"`
	Faulty   bool    `json:"fault_config"`
	DropStep int     `json:"drop_step,omitempty"`
	DropConn int     `json:"drop_conn,omitempty"`
	History  []c26op `json:"history,omitempty"`
}

func (m *storeModel) key() string {
	var sb strings.Builder
	fmt.Fprintf(&sb, "%d|", m.next)
	for _, k := range m.seqs() {
		fmt.Fprintf(&sb, "%d=%q,", k, m.cmds[k])
	}
	return sb.String()
}

func genC26Op(w *simrt.Tape, client, i int, next *int) storeOp {
	seq := func() int {
		switch w.Draw(5) {
		case 0:
			return 0
		case 1:
			return *next + w.Draw(3)
		default:
			return w.Range(1, *next)
		}
	}
	prefixes := []string{"", "a", "ab", "b"}
	switch k := w.Draw(12); {
	case k < 5:
		*next++
		// unique text: every read is attributable to one write
		return storeOp{Kind: "add", Text: fmt.Sprintf("%sc%d-%d", prefixes[w.Draw(len(prefixes))], client, i)}
	case k == 5:
		return storeOp{Kind: "del", Seq: seq()}
	case k == 6:
		return storeOp{Kind: "cmd", Seq: seq()}
	case k == 7:
		return storeOp{Kind: "nextseq"}
	case k == 8:
		o := storeOp{Kind: "list", From: seq(), Upto: seq()}
		if w.Chance(1, 2) {
			o.From, o.Upto = 0, -1
		}
		return o
	case k <= 10:
		return storeOp{Kind: "next", From: seq(), Prefix: prefixes[w.Draw(len(prefixes))]}
	default:
		return storeOp{Kind: "prev", Upto: seq(), Prefix: prefixes[w.Draw(len(prefixes))]}
	}
}

func runC26(c *Ctx) {
	w := c.T.Workload
	cs := &c26case{Clients: w.Range(2, 8), Faulty: c.T.Faults.Chance(1, 3)}
	c.Res.Case = cs
	nOps := make([]int, cs.Clients)
	total := 0
	for i := range nOps {
		nOps[i] = w.Range(3, 12)
		total += nOps[i]
	}
	for total > 60 { // keep the linearizability check tractable
		for i := range nOps {
			if nOps[i] > 3 && total > 60 {
				nOps[i]--
				total--
			}
		}
	}
	// Which client tasks share one daemon client object (after its first request)?
	// (Not in the fault configuration: after a connection loss the shared
	// client re-dials lazily from whichever goroutine notices first, which is
	// outside the precondition under which sharing is stated to be safe.)
	nShared := 0
	if w.Chance(2, 3) && !cs.Faulty {
		nShared = w.Range(2, cs.Clients)
	}
	for i := 0; i < nShared; i++ {
		cs.Shared = append(cs.Shared, i)
	}
	next := 1
	plans := make([][]storeOp, cs.Clients)
	for ci := range plans {
		for i := 0; i < nOps[ci]; i++ {
			plans[ci] = append(plans[ci], genC26Op(w, ci, i, &next))
		}
	}
	dir := storeTempDir()
	defer os.RemoveAll(dir)
	sock, db := filepath.Join(dir, "sock"), filepath.Join(dir, "db")
	var hist []c26op
	var histMu sync.Mutex
	var finalList []storedefs.Cmd
	var finalErr error
	c.Bubble(func() {
		s := simrt.New(c.T)
		s.EnableHB()
		s.KeepTrace = c.Knobs["trace"] != ""
		s.MaxSteps = 600000
		if cs.Faulty {
			cs.DropStep = c.T.Faults.Range(50, 1800)
			cs.DropConn = c.T.Faults.Draw(cs.Clients + 1)
			dropConnAtStep(s, cs.DropStep, cs.DropConn, func() { c.Fault("connection-drop") })
		}
		ready := make(chan struct{})
		s.Spawn("daemon", func() {
			simrt.SetProcess(1000)
			daemon.Serve(sock, db, daemon.ServeOpts{Ready: ready, Signals: make(chan os.Signal)})
			s.ExitProcess(1000)
		})
		record := func(ci int, o storeOp, call int64, r storeResult, ret int64) {
			e := c26op{Client: ci, Op: o, Call: call, Ret: ret, res: r,
				Res: c26res{Seq: r.Seq, Text: r.Text, N: len(r.Cmds), Err: r.Err}}
			if r.Err != "" && r.Err != "nomatch" {
				e.Failed, e.Err = true, r.Err
			}
			histMu.Lock()
			hist = append(hist, e)
			histMu.Unlock()
		}
		runClient := func(ci int, cl daemondefs.Client) {
			for _, o := range plans[ci] {
				call := int64(simrt.CurStep())*2 + 1
				r := applyReal(cl, o)
				ret := int64(simrt.CurStep()) * 2
				record(ci, o, call, r, ret)
			}
		}
		s.Spawn("keeper", func() {
			<-ready
			// The keeper holds one connection for the whole run so that the
			// daemon does not exit between clients.
			keeper := daemon.NewClient(sock)
			if _, err := keeper.Version(); err != nil {
				c.Violation("setup", "keeper could not reach the daemon: %v", err)
				return
			}
			var wg sync.WaitGroup
			var shared daemondefs.Client
			if nShared > 0 {
				shared = daemon.NewClient(sock)
				// "after its first successful request, as the shell does after activation"
				if _, err := shared.Version(); err != nil {
					c.Violation("setup", "shared client could not reach the daemon: %v", err)
					return
				}
			}
			for ci := 0; ci < cs.Clients; ci++ {
				ci := ci
				wg.Add(1)
				if ci < nShared {
					go func() {
						defer wg.Done()
						runClient(ci, shared)
					}()
				} else {
					go func() {
						defer wg.Done()
						cl := daemon.NewClient(sock)
						runClient(ci, cl)
						cl.Close()
					}()
				}
			}
			wg.Wait()
			if shared != nil {
				shared.Close()
			}
			// Final listing through the keeper (a fresh connection if the keeper's was the one dropped).
			finalList, finalErr = keeper.CmdsWithSeq(0, -1)
			if finalErr != nil {
				keeper.ResetConn()
				finalList, finalErr = keeper.CmdsWithSeq(0, -1)
			}
			keeper.Close()
		})
		v := s.Run()
		c.FinishSim(s, v)
		if v == nil {
			c.ReportRaces(s)
		}
	})
	if !c.Res.OK {
		cs.History = hist
		return
	}
	checkC26(c, cs, hist, finalList, finalErr)
	if !c.Res.OK {
		cs.History = hist
	}
}

func checkC26(c *Ctx, cs *c26case, hist []c26op, finalList []storedefs.Cmd, finalErr error) {
	failed := 0
	for _, e := range hist {
		if e.Failed {
			failed++
		}
	}
	if !cs.Faulty && failed > 0 {
		for _, e := range hist {
			if e.Failed {
				c.Violation("availability", "without any injected fault, client %d's %s failed: %s", e.Client, e.Op.Kind, e.Err)
				return
			}
		}
	}
	if failed > 0 {
		c.Probe("operations-failed-by-connection-fault")
	}
	// Direct checks: sequence numbers unique; no acknowledged add lost or duplicated.
	seqOwner := map[int]string{}
	acked := map[string]int{}
	maybe := map[string]bool{}
	deleted := map[int]bool{}
	for _, e := range hist {
		if e.Op.Kind == "add" {
			if e.Failed {
				maybe[e.Op.Text] = true
				continue
			}
			if prev, dup := seqOwner[e.Res.Seq]; dup {
				c.Violation("unique-seq", "sequence number %d was handed out twice: for %q and %q", e.Res.Seq, prev, e.Op.Text)
				return
			}
			seqOwner[e.Res.Seq] = e.Op.Text
			acked[e.Op.Text] = e.Res.Seq
		}
		if e.Op.Kind == "del" {
			deleted[e.Op.Seq] = true // (a failed delete may or may not have happened)
		}
	}
	if finalErr != nil {
		if !cs.Faulty {
			c.Violation("availability", "final listing failed: %v", finalErr)
		}
	} else {
		count := map[string]int{}
		for _, cmd := range finalList {
			count[cmd.Text]++
			if count[cmd.Text] > 1 {
				c.Violation("duplicate", "command %q appears %d times in the final listing %v", cmd.Text, count[cmd.Text], finalList)
				return
			}
			if _, ok := acked[cmd.Text]; !ok && !maybe[cmd.Text] {
				c.Violation("duplicate", "command %q in the final listing was never added", cmd.Text)
				return
			}
			if seq, ok := acked[cmd.Text]; ok && seq != cmd.Seq {
				c.Violation("unique-seq", "command %q was acknowledged with sequence number %d but is stored under %d", cmd.Text, seq, cmd.Seq)
				return
			}
		}
		for text, seq := range acked {
			if count[text] == 0 && !deleted[seq] {
				c.Violation("lost", "acknowledged command %q (sequence number %d) is missing from the final listing and nobody deleted it", text, seq)
				return
			}
		}
		for i := 1; i < len(finalList); i++ {
			if finalList[i-1].Seq >= finalList[i].Seq {
				c.Violation("order", "final listing is not in sequence order: %v", finalList)
				return
			}
		}
	}
	// Linearizability against the sequential store model.
	maxT := int64(0)
	for _, e := range hist {
		if e.Ret > maxT {
			maxT = e.Ret
		}
	}
	var ops []porcupine.Operation
	for i := range hist {
		e := &hist[i]
		ret := e.Ret
		if e.Failed {
			ret = maxT + 10 // indeterminate: may take effect at any later time, or never
		}
		ops = append(ops, porcupine.Operation{ClientId: e.Client, Input: e, Call: e.Call, Output: e, Return: ret})
	}
	nm := porcupine.NondeterministicModel{
		Init: func() []interface{} { return []interface{}{newStoreModel()} },
		Step: func(state, input, output interface{}) []interface{} {
			m := state.(*storeModel)
			e := input.(*c26op)
			n := m.clone()
			want := n.apply(e.Op)
			if e.Failed {
				if e.Op.mutates() {
					return []interface{}{m, n}
				}
				return []interface{}{m}
			}
			if compareResult(e.Op, e.res, want, 0) != nil {
				return nil
			}
			return []interface{}{n}
		},
		Equal: func(a, b interface{}) bool { return a.(*storeModel).key() == b.(*storeModel).key() },
		DescribeOperation: func(in, out interface{}) string {
			e := in.(*c26op)
			return fmt.Sprintf("%+v -> %+v", e.Op, e.Res)
		},
	}
	res := porcupine.CheckOperationsTimeout(nm.ToModel(), ops, 12*time.Second)
	switch res {
	case porcupine.Illegal:
		sort.Slice(hist, func(i, j int) bool { return hist[i].Call < hist[j].Call })
		var lines []string
		for _, e := range hist {
			lines = append(lines, fmt.Sprintf("c%d [%d,%d] %s%+v -> %+v", e.Client, e.Call, e.Ret, map[bool]string{true: "FAILED ", false: ""}[e.Failed], e.Op, e.Res))
		}
		c.Violation("linearizability", "the observed history of %d operations by %d clients is not linearizable w.r.t. the sequential store model:\n%s", len(hist), cs.Clients, strings.Join(lines, "\n"))
	case porcupine.Unknown:
		c.Probe("linearizability-check-timed-out-inconclusive")
	default:
		c.Probe("history-linearizable")
	}
}
